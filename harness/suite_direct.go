package main

import (
	"context"
	"crypto/tls"
	"fmt"
	"net"
	"strings"
	"time"

	"github.com/wneessen/go-mail"
	"github.com/wneessen/go-mail/smtp"
)

// The smtp package used directly, in ways mail.Client never uses it: a caller that carries on after a
// failed StartTLS, and one Auth value that serves several connections.

func init() {
	register(Suite{Name: "c07-smtp-direct", Property: "C07",
		Rule: "smtp.NewClient, then StartTLS against a server that refuses it (454, 502, 500, garbage, disconnect, a handshake that fails) or accepts it, then - whatever StartTLS returned - Auth with PlainAuth / LoginAuth (not the NOENC forms) for non-localhost and localhost server names; the event trace, the result of Auth and the connection state are compared with the Lean model (newClient, startTLS, authWith, close); oracle: the bytes the client wrote in clear text must not contain the password in any SASL encoding unless the server name is localhost; distinct by (mechanism, host, server behaviour, credentials)",
		Run: func(c *Ctx) {
			tlsMaterial()
			n := c.N(240, 6000)
			hosts := []string{"verif.example", "localhost.mail-relay.example", "localhost", "127.0.0.1"}
			for i := 0; i < n; i++ {
				r := c.Rng
				host := hosts[r.Intn(len(hosts))]
				if r.Chance(50) {
					host = hosts[r.Intn(2)]
				}
				mech := []string{"PLAIN", "LOGIN"}[r.Intn(2)]
				user, pass := genCred(r, false), genCred(r, false)
				if len(pass) < 4 {
					pass += "-secret"
				}
				behaviour := r.Intn(8)
				sc := &DialScenario{Host: host, Policy: 0, AuthType: mech, User: user, Pass: pass, Script: map[int]SrvAction{},
					Caps: []string{"8BITMIME", "STARTTLS", "AUTH PLAIN LOGIN"}}
				ss := &saslServer{user: user, pass: pass}
				sc.sasl = ss
				sc.dynamic = func(pos int, verb, line string) (SrvAction, bool) {
					switch verb {
					case "STARTTLS":
						switch behaviour {
						case 0:
							return SrvAction{Kind: "reply", Code: 454, Text: "4.7.0 TLS not available due to temporary reason"}, true
						case 1:
							return SrvAction{Kind: "reply", Code: 502, Text: "5.5.1 command not implemented"}, true
						case 2:
							return SrvAction{Kind: "reply", Code: 500, Text: "unrecognised"}, true
						case 3:
							return SrvAction{Kind: "garbage"}, true
						case 4:
							return SrvAction{Kind: "reply", Code: 250, Text: "2.0.0 OK (but this is not 220)"}, true
						}
					case "handshake":
						if behaviour == 5 {
							return SrvAction{Kind: "tlsbad"}, true
						}
					case "AUTH", "auth-step":
						return ss.handle(verb, line)
					}
					return SrvAction{}, false
				}
				srv := newDialServer(sc, host)
				conn := NewScriptConn(srv)
				logger := &capLogger{}
				run := &DialRun{}
				var stErr, authErr error
				var pan interface{}
				gotClient := false
				if !watchdog(30*time.Second, func() {
					defer func() {
						if rec := recover(); rec != nil {
							pan = rec
						}
					}()
					_ = conn.SetDeadline(time.Now().Add(3 * time.Second))
					cl, err := smtp.NewClient(conn, host)
					if err != nil {
						stErr = err
						run.Err = err
						_ = conn.Close()
						return
					}
					gotClient = true
					stErr = cl.StartTLS(&tls.Config{ServerName: host, RootCAs: tlsRoots, MinVersion: tls.VersionTLS12})
					// a caller that does not give up: authenticate anyway
					authErr = cl.Auth(directAuth(sc))
					if authErr != nil {
						run.Err = fmt.Errorf("SMTP AUTH failed: %w", authErr)
					}
					_ = cl.Close()
				}) {
					pan = "the calls did not return within 30 s"
					_ = conn.Close()
				}
				c.rep.OracleChecked++
				in := map[string]interface{}{"mechanism": mech, "host": host, "user": user, "pass": pass, "starttls_behaviour": behaviour,
					"starttls_error": fmt.Sprint(stErr), "auth_error": fmt.Sprint(authErr)}
				if pan != nil {
					c.Violate("dial-panic", fmt.Sprintf("the client panicked / hung: %v", pan), in)
					continue
				}
				collectDial(run, srv, conn, logger, 0)
				if gotClient {
					// the same three calls on the model: newClient, startTLS (result ignored), authWith, close
					line := strings.Replace(sc.modelLine(run), "smtp dial ", "smtp tlsauth ", 1)
					c.AddCase(Case{Line: line, Want: run.wantLine(), Nontrivial: stErr != nil,
						Branch: fmt.Sprintf("%s:behaviour=%d:starttls-failed=%v", mech, behaviour, stErr != nil), Desc: in})
				}
				clear := run.Clear
				local := host == "localhost" || host == "127.0.0.1"
				if f := containsSecret(clear, user, pass); f != "" && !local {
					c.Violate("c07-cleartext-password", fmt.Sprintf("the password left the process in clear text (form %q) after StartTLS returned %v", f, stErr), in)
				}
				if stErr != nil && authErr == nil && !local {
					c.Violate("c07-auth-without-tls", fmt.Sprintf("%s authentication went through on a connection without TLS (StartTLS: %v)", mech, stErr), in)
				}
				c.Count(stErr != nil, fmt.Sprint(mech, host, behaviour, user, pass), fmt.Sprintf("%s:local=%v:behaviour=%d:starttls-failed=%v", mech, local, behaviour, stErr != nil))
			}
		}})

	register(Suite{Name: "c14-auth-reuse", Property: "C14",
		Rule: "ONE Auth value serves 2..3 successive connections, each to a fresh reference SASL server: (a) smtp.Client.Auth called with the same smtp.Auth on new connections, (b) mail.Client with SetSMTPAuthCustom / WithSMTPAuthCustom dialled, closed and dialled again; every mechanism that works without TLS; right and wrong passwords; every round must be accepted exactly when the credentials are right - a conforming verifier does not care how often the client has authenticated before; oracle only; distinct by (mechanism, path, credentials, rounds)",
		Run: func(c *Ctx) {
			n := c.N(200, 8000)
			mechs := []string{"PLAIN-NOENC", "LOGIN-NOENC", "CRAM-MD5", "XOAUTH2", "SCRAM-SHA-1", "SCRAM-SHA-256"}
			for i := 0; i < n; i++ {
				r := c.Rng
				ac := genAuthCase(r)
				ac.mech = mechs[r.Intn(len(mechs))]
				ac.tlsMode = 0
				if ac.iter > 300 {
					ac.iter = 1 + r.Intn(100)
				}
				right := ac.pass == ac.srvPass
				_, uok := scramNormUser(ac.user)
				_, pok := scramNormPass(ac.pass)
				if strings.HasPrefix(ac.mech, "SCRAM") && (!uok || !pok) {
					continue
				}
				if (ac.mech == "PLAIN-NOENC" || ac.mech == "XOAUTH2") && !(nulFree(ac.user) && nulFree(ac.pass)) {
					continue
				}
				rounds := 2 + r.Intn(2)
				viaClient := r.Bool()
				sc0, _ := ac.scenario()
				auth := directAuth(sc0)
				var client *mail.Client
				var curSrv *RefServer
				if viaClient {
					dial := func(ctx context.Context, network, address string) (net.Conn, error) {
						return NewScriptConn(curSrv), nil
					}
					var err error
					if r.Bool() {
						client, err = mail.NewClient(sc0.Host, mail.WithDialContextFunc(dial), mail.WithTLSPolicy(mail.NoTLS), mail.WithTimeout(3*time.Second), mail.WithSMTPAuthCustom(auth))
					} else {
						client, err = mail.NewClient(sc0.Host, mail.WithDialContextFunc(dial), mail.WithTLSPolicy(mail.NoTLS), mail.WithTimeout(3*time.Second))
						if err == nil {
							client.SetSMTPAuthCustom(auth)
						}
					}
					if err != nil {
						c.Note("config: %v", err)
						continue
					}
				}
				for k := 0; k < rounds; k++ {
					sc, _ := ac.scenario() // a fresh server with the same expectations
					srv := newDialServer(sc, sc.Host)
					curSrv = srv
					var err error
					var pan interface{}
					if !watchdog(30*time.Second, func() {
						defer func() {
							if rec := recover(); rec != nil {
								pan = rec
							}
						}()
						if viaClient {
							err = client.DialWithContext(context.Background())
							if err == nil {
								_ = client.Close()
							}
							return
						}
						conn := NewScriptConn(srv)
						_ = conn.SetDeadline(time.Now().Add(3 * time.Second))
						cl, e := smtp.NewClient(conn, sc.Host)
						if e != nil {
							err = e
							return
						}
						err = cl.Auth(auth)
						_ = cl.Close()
					}) {
						pan = "the call did not return within 30 s"
					}
					c.rep.OracleChecked++
					in := map[string]interface{}{"mechanism": ac.mech, "user": ac.user, "pass": ac.pass, "server_expects": ac.srvPass, "round": k + 1, "rounds": rounds, "via_mail_client": viaClient, "error": fmt.Sprint(err)}
					switch {
					case pan != nil:
						c.Violate("dial-panic", fmt.Sprintf("the client panicked / hung: %v", pan), in)
					case right && err != nil:
						c.Violate("c14-right-credentials-rejected", fmt.Sprintf("%s, round %d with the same Auth value: the right credentials were not accepted: %v", ac.mech, k+1, err), in)
					case !right && err == nil:
						c.Violate("c14-wrong-credentials-accepted", fmt.Sprintf("%s, round %d: authentication succeeded although the server expects another password", ac.mech, k+1), in)
					}
					c.Count(k > 0, fmt.Sprint(ac.mech, ac.user, ac.pass, ac.srvPass, viaClient, k), fmt.Sprintf("%s:client=%v:round=%d:right=%v", ac.mech, viaClient, k+1, right))
					if pan != nil {
						break
					}
				}
			}
		}})
}
