package main

import (
	"fmt"
	netmail "net/mail"
	"strings"

	"github.com/wneessen/go-mail"
)

// ---------------------------------------------------------------------------------------------
// C02, address display names set through the *Format helpers (FromFormat, AddToFormat, AddCcFormat,
// ReplyToFormat, AddBccFormat, EnvelopeFromFormat): formatAddress is compared with the Lean model
// (theorem readNameAddr_format: the quoted-string reader gives the name back for every byte string),
// and the rendered field must parse back to exactly the name that was set - or the helper refuses.

var trickyNames = []string{`Joe "The Boss" Doe`, `back\slash`, `trailing\`, `"`, `\"`, `\\"`, `a" <evil@example.org>, "b`, `x" <evil@example.org`,
	`Doe, John`, `<angle>`, `semi;colon`, `(comment)`, `at@sign`, "tab\there", `"quoted"`, `\\\`, `""`, `a\"b`, `ä "ö" ü`, `名前 "x"`, ``, ` `, `.`, `O'Neil`}

func init() {
	register(Suite{Name: "c02-format-names", Property: "C02",
		Rule: "display names (quotes, backslashes, angle brackets, commas, UTF-8, control characters, injection attempts) through FromFormat / AddToFormat / AddCcFormat / ReplyToFormat / AddBccFormat / EnvelopeFromFormat: formatAddress vs model; after an accepted call the getter and the rendered field (parsed with net/mail) hold exactly that name and address, no other address and no additional field; non-trivial = name needs escaping; distinct by (helper, name)",
		Run:  runFormatNames})

	register(Suite{Name: "c06-format-names", Property: "C06",
		Rule: "the *Format helpers (FromFormat / AddToFormat / AddCcFormat / ReplyToFormat / AddBccFormat / EnvelopeFromFormat) with display names that need quoting, escaping or encoding - quotes, backslashes, commas, UTF-8, no-break and zero-width spaces, soft hyphens, tabs: after an accepted call the getter, the envelope and the rendered From / To / Cc / Reply-To field (parsed with net/mail) hold exactly the name and address that were set, exactly once; Bcc and envelope-from names appear nowhere in the output; formatAddress compared with the Lean model; values that look like encoded-words are left to C02",
		Run:  runFormatNames})
}

// runFormatNames is registered under C02 and under C06 (each property's check stands alone); under C06 the
// classes are named c06-... and names that look like an encoded-word (a known finding of C02) are not drawn
func runFormatNames(c *Ctx) {
	viol := func(class, msg string, d interface{}) {
		if c.rep.Property == "C06" {
			class = "c06" + strings.TrimPrefix(class, "c02")
		}
		c.Violate(class, msg, d)
	}
	n := c.N(2500, 120000)
	for i := 0; i < n; i++ {
		r := c.Rng
		var name string
		switch r.Intn(3) {
		case 0:
			name = trickyNames[r.Intn(len(trickyNames))]
		case 1:
			name = trickyNames[r.Intn(len(trickyNames))] + genText(r, 3) + trickyNames[r.Intn(len(trickyNames))]
		default:
			name = genText(r, 6)
		}
		if r.Chance(15) {
			// characters a formatting verb would escape instead of passing through
			name = trickyNames[r.Intn(len(trickyNames))] + []string{"Jean\u00a0Dupont", "zero\u200bwidth", "soft\u00adhyphen", "narrow\u202fspace", "joiner\u200dhere", "bell\u2407sign"}[r.Intn(6)]
		}
		if c.rep.Property == "C06" && strings.Contains(name, "=?") {
			continue
		}
		addr := []string{"user@example.com", "first.last@sub.example.org", "x+tag@example.net"}[r.Intn(3)]
		helper := r.Intn(6)
		desc := map[string]interface{}{"helper": []string{"FromFormat", "AddToFormat", "AddCcFormat", "ReplyToFormat", "AddBccFormat", "EnvelopeFromFormat"}[helper], "name": name, "addr": addr}
		needsEsc := strings.ContainsAny(name, "\"\\")
		c.AddCase(Case{Line: "fmtaddr " + encS(name) + " " + encS(addr), Want: encS(mail.VerifFormatAddress(name, addr)), Nontrivial: needsEsc,
			Branch: fmt.Sprintf("helper=%d esc=%v", helper, needsEsc), Desc: desc})

		// how an accepted address is rendered: addressString vs model (net/mail's String() is a parameter)
		if ad, perr := netmail.ParseAddress(mail.VerifFormatAddress(name, addr)); perr == nil {
			spec := (&netmail.Address{Address: ad.Address}).String()
			c.AddCase(Case{Line: "addrstr " + encS(ad.Name) + " " + encS(ad.String()) + " " + encS(spec), Want: encS(mail.VerifAddressString(ad)),
				Nontrivial: strings.Contains(ad.Name, "\\"), Branch: fmt.Sprintf("addrstr bs=%v", strings.Contains(ad.Name, "\\")), Desc: desc})
		}

		m := mail.NewMsg()
		_ = m.From("sender@example.com")
		_ = m.To("rcpt@example.com")
		m.Subject("s")
		m.SetBodyString(mail.TypeTextPlain, "body")
		var err error
		var kind mail.AddrHeader
		field := ""
		switch helper {
		case 0:
			err, kind, field = m.FromFormat(name, addr), mail.HeaderFrom, "From"
		case 1:
			m2 := mail.NewMsg()
			_ = m2.From("sender@example.com")
			m2.Subject("s")
			m2.SetBodyString(mail.TypeTextPlain, "body")
			m = m2
			err, kind, field = m.AddToFormat(name, addr), mail.HeaderTo, "To"
		case 2:
			err, kind, field = m.AddCcFormat(name, addr), mail.HeaderCc, "Cc"
		case 3:
			err, kind, field = m.ReplyToFormat(name, addr), mail.HeaderReplyTo, "Reply-To"
		case 4:
			err, kind, field = m.AddBccFormat(name, addr), mail.HeaderBcc, ""
		default:
			err, kind, field = m.EnvelopeFromFormat(name, addr), mail.HeaderEnvelopeFrom, ""
		}
		c.rep.OracleChecked++
		if err != nil {
			c.rep.Branches["oracle:refused"]++
			continue
		}
		c.rep.Branches["oracle:accepted"]++
		lookalike := strings.Contains(name, "=?")
		got := m.GetAddrHeader(kind)
		if len(got) != 1 {
			viol("c02-format-extra-address", fmt.Sprintf("%d addresses stored after one accepted call", len(got)), desc)
			continue
		}
		if got[0].Address != addr || normWS(got[0].Name) != normWS(name) {
			if lookalike {
				viol("c02-encoded-word-lookalike", "a printable value that looks like an encoded-word is emitted verbatim and decodes to something else", desc)
			} else {
				viol("c02-format-name-altered", fmt.Sprintf("stored %q <%s>, the caller set %q <%s>", got[0].Name, got[0].Address, name, addr), desc)
			}
			continue
		}
		res := renderOnce(m, -1)
		if res.err != nil || res.panic != nil {
			viol("c02-format-render", fmt.Sprintf("render failed: %v %v", res.err, res.panic), desc)
			continue
		}
		ent, perr := parseEntity(res.out, 0)
		if perr != nil {
			viol("c02-format-unparseable", perr.Error(), desc)
			continue
		}
		allowed := map[string]bool{"date": true, "mime-version": true, "message-id": true, "subject": true, "user-agent": true, "x-mailer": true,
			"from": true, "to": true, "cc": true, "reply-to": true, "content-type": true, "content-transfer-encoding": true}
		seen := map[string]int{}
		for _, f := range ent.Fields {
			k := strings.ToLower(f.Name)
			seen[k]++
			if !allowed[k] {
				viol("c02-format-injected-field", "additional header field "+f.Name, desc)
			}
			if seen[k] > 1 {
				viol("c02-format-duplicate-field", "field "+f.Name+" occurs more than once", desc)
			}
		}
		if string(ent.Body) != "body" && string(ent.Body) != "body\r\n" {
			viol("c02-format-premature-end", fmt.Sprintf("the body is %q", string(ent.Body)), desc)
		}
		if field == "" {
			continue
		}
		v, cnt := ent.Get(field)
		if cnt != 1 {
			viol("c02-format-field-count", fmt.Sprintf("%s occurs %d times", field, cnt), desc)
			continue
		}
		names, addrs, aerr := parsedNames(v)
		if aerr != nil || len(addrs) != 1 {
			viol("c02-format-field-unparseable", fmt.Sprintf("%s: %q parses to %d addresses (%v)", field, v, len(addrs), aerr), desc)
			continue
		}
		if addrs[0] != addr || normWS(names[0]) != normWS(name) {
			if lookalike {
				viol("c02-encoded-word-lookalike", "a printable value that looks like an encoded-word is emitted verbatim and decodes to something else", desc)
			} else {
				viol("c02-format-name-altered", fmt.Sprintf("%s renders as %q <%s>, the caller set %q <%s>", field, names[0], addrs[0], name, addr), desc)
			}
		}
	}
}
