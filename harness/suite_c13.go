package main

import (
	"bytes"
	"context"
	"fmt"
	"net"
	"strings"
	"sync"
	"time"

	mail "github.com/wneessen/go-mail"
	maillog "github.com/wneessen/go-mail/log"
)

// ---------------------------------------------------------------------------------------------
// C13: goroutines sharing one Client. Shared connection: Send from N goroutines; per-call
// connections: DialAndSend from N goroutines. The harness binary for this suite is built with -race.

func c13Msg(i int) *mail.Msg { return c13MsgOfSize(i, 0) }

// c13MsgOfSize: size > 0 = a body of about that many bytes in which every line names its message (and an
// attachment of a third of it, so that the content goes through every layer of the writer)
func c13MsgOfSize(i, size int) *mail.Msg {
	m := mail.NewMsg()
	_ = m.From(fmt.Sprintf("sender%d@example.com", i))
	_ = m.To(fmt.Sprintf("rcpt%d@example.com", i))
	m.Subject(fmt.Sprintf("verif message %d", i))
	if size == 0 {
		m.SetBodyString(mail.TypeTextPlain, fmt.Sprintf("body of message %d\r\n", i))
		return m
	}
	var b strings.Builder
	for k := 0; b.Len() < size; k++ {
		fmt.Fprintf(&b, "own line of message %04d number %06d ........................\r\n", i, k)
	}
	m.SetBodyString(mail.TypeTextPlain, b.String(), mail.WithPartEncoding(mail.NoEncoding))
	whole := b.String()
	cut := strings.LastIndex(whole[:size/3], "\r\n") + 2 // whole lines only
	_ = m.AttachReader("data.txt", strings.NewReader(whole[:cut]), mail.WithFileEncoding(mail.NoEncoding))
	return m
}

// checkTranscript: transactions contiguous, each message committed exactly once with its own envelope
func checkTranscript(c *Ctx, evs []Event, committed [][]byte, in interface{}, seen map[int]int) {
	for _, p := range judgeDialogue(evs) {
		cls := "c13-illegal-dialogue"
		if strings.Contains(p, "inside an open transaction") || strings.Contains(p, "without an accepted") || strings.Contains(p, "outside DATA") {
			cls = "c13-interleaved-transactions"
		}
		c.Violate(cls, p, in)
	}
	// envelope / content pairing
	sender, rcpt := "", ""
	for _, e := range evs {
		switch e.Kind {
		case "cmd":
			if strings.HasPrefix(e.Line, "MAIL FROM:<") {
				sender = strings.TrimSuffix(strings.TrimPrefix(strings.Fields(e.Line)[0]+" ", "MAIL "), " ")
				sender = strings.TrimSuffix(strings.TrimPrefix(e.Line[len("MAIL FROM:<"):], ""), ">")
				if i := strings.Index(sender, ">"); i >= 0 {
					sender = sender[:i]
				}
				rcpt = ""
			}
			if strings.HasPrefix(e.Line, "RCPT TO:<") {
				rcpt = e.Line[len("RCPT TO:<"):]
				if i := strings.Index(rcpt, ">"); i >= 0 {
					rcpt = rcpt[:i]
				}
			}
		case "eod":
			var idx int
			if _, err := fmt.Sscanf(between(string(e.Data), "Subject: verif message ", "\r\n"), "%d", &idx); err != nil {
				c.Violate("c13-unknown-payload", "a committed payload is not one of the messages", in)
				continue
			}
			if sender != fmt.Sprintf("sender%d@example.com", idx) || rcpt != fmt.Sprintf("rcpt%d@example.com", idx) {
				c.Violate("c13-envelope-content-mismatch", fmt.Sprintf("message %d was sent with envelope %s -> %s", idx, sender, rcpt), in)
			}
			seen[idx]++
			// every line that names a message names THIS one (large contents travel in blocks: none of another message)
			own := fmt.Sprintf("own line of message %04d ", idx)
			rest := string(e.Data)
			for {
				k := strings.Index(rest, "own line of message ")
				if k < 0 {
					break
				}
				if !strings.HasPrefix(rest[k:], own) {
					c.Violate("c13-content-of-another-message", fmt.Sprintf("the payload committed for message %d contains %.40q", idx, rest[k:]), in)
					break
				}
				rest = rest[k+len(own):]
			}
		}
	}
}

// lockedBuffer: an io.Writer that is safe for concurrent use
type lockedBuffer struct {
	mu  sync.Mutex
	buf bytes.Buffer
}

func (l *lockedBuffer) Write(p []byte) (int, error) {
	l.mu.Lock()
	defer l.mu.Unlock()
	return l.buf.Write(p)
}

func (l *lockedBuffer) String() string {
	l.mu.Lock()
	defer l.mu.Unlock()
	return l.buf.String()
}

func between(s, a, b string) string {
	i := strings.Index(s, a)
	if i < 0 {
		return ""
	}
	s = s[i+len(a):]
	j := strings.Index(s, b)
	if j < 0 {
		return s
	}
	return s[:j]
}

func init() {
	register(Suite{Name: "c13-concurrent", Property: "C13",
		Rule: "2..64 goroutines send distinct messages through one Client: (a) Send on one shared established connection, (b) DialAndSend with a connection per call, (c) both at the same time on one Client, with every fourth message (a DialAndSend one) refused at end-of-data and every fourth having its recipient refused; the scripted server adds random latency to vary the schedule; per-connection transcripts are judged for transaction contiguity and envelope/content pairing, every message must be delivered exactly once; run under the race detector; distinct by (mode, goroutines, seed)",
		Run: func(c *Ctx) {
			rounds := c.N(24, 400)
			for round := 0; round < rounds; round++ {
				r := c.Rng
				n := []int{2, 3, 4, 8, 16, 32, 64}[r.Intn(7)]
				mode := round % 3 // 0: Send on the shared connection, 1: DialAndSend per call, 2: both at once, with refusals
				shared := mode == 0
				jitter := r.Intn(3)
				// mixed mode: every DialAndSend message with index = 1 (mod 4) is refused at end-of-data
				refused := func(i int) bool { return mode == 2 && i%2 == 1 && i%4 == 1 }
				// ... and every DialAndSend message with index = 3 (mod 4) has its only recipient refused: the
				// transaction is abandoned (RSET) on ITS connection, nobody else's
				rcptRefused := func(i int) bool { return mode == 2 && i%4 == 3 }
				var mu sync.Mutex
				var servers []*RefServer
				// every second set of three rounds authenticates (a multi-step mechanism: one dialogue per dial)
				authType := []string{"", "LOGIN-NOENC", "", "SCRAM-SHA-256", "", "CRAM-MD5"}[(round/3)%6]
				// per-call connections, every other time: the port of the TLS policy is unreachable, its fallback
				// port works (every dial fails once and then succeeds, on every goroutine)
				fallback := mode == 1 && (round/3)%2 == 1
				dial := func(ctx context.Context, network, address string) (net.Conn, error) {
					if fallback && !strings.HasSuffix(address, ":25") {
						time.Sleep(time.Duration(200+(len(address)*7919+n*131)%900) * time.Microsecond)
						return nil, fmt.Errorf("dial tcp %s: connect: connection refused", address)
					}
					caps := []string{"8BITMIME", "ENHANCEDSTATUSCODES"}
					var ss *saslServer
					if authType != "" {
						caps = append(caps, "AUTH PLAIN LOGIN CRAM-MD5 SCRAM-SHA-1 SCRAM-SHA-256")
						ss = &saslServer{user: "verif-user", pass: "S3cr3t-Passw0rd!", salt: []byte("0123456789abcdef"), iter: 4096}
					}
					srv := NewRefServer(caps, map[int]SrvAction{})
					cur := -1
					srv.Dynamic = func(pos int, verb, line string) (SrvAction, bool) {
						if ss != nil && (verb == "AUTH" || verb == "auth-step") {
							return ss.handle(verb, line)
						}
						if jitter > 0 {
							time.Sleep(time.Duration((pos*7919)%(jitter*60)) * time.Microsecond)
						}
						if verb == "MAIL" {
							_, _ = fmt.Sscanf(line, "MAIL FROM:<sender%d@", &cur)
						}
						if verb == "eod" && cur >= 0 && refused(cur) {
							return SrvAction{Kind: "reply", Code: 554, Text: "5.6.0 content refused"}, true
						}
						if verb == "RCPT" && cur >= 0 && rcptRefused(cur) {
							return SrvAction{Kind: "reply", Code: 550, Text: "5.1.1 no such user"}, true
						}
						return SrvAction{}, false
					}
					mu.Lock()
					servers = append(servers, srv)
					mu.Unlock()
					return NewScriptConn(srv), nil
				}
				copts := []mail.Option{mail.WithTLSPolicy(mail.NoTLS), mail.WithDialContextFunc(dial), mail.WithTimeout(10 * time.Second)}
				if fallback {
					copts[0] = mail.WithTLSPortPolicy(mail.TLSOpportunistic)
				}
				if authType != "" {
					copts = append(copts, mail.WithSMTPAuth(mail.SMTPAuthType(authType)), mail.WithUsername("verif-user"), mail.WithPassword("S3cr3t-Passw0rd!"))
				}
				// every fourth round: debug logging through ONE logger of the library's own kind, shared by all
				// connections of the Client (the writer behind it is safe for concurrent use; the logger must be too)
				var logSink lockedBuffer
				if round%4 == 3 {
					copts = append(copts, mail.WithDebugLog(), mail.WithLogger(maillog.New(&logSink, maillog.LevelDebug)))
				}
				client, err := mail.NewClient("verif.example", copts...)
				if err != nil {
					c.Note("config: %v", err)
					continue
				}
				// every fifth round: contents of 70 KB .. 1 MiB (fewer goroutines)
				size := 0
				if round%5 == 4 {
					size = []int{70000, 200000, 1 << 20}[(round/5)%3]
					if n > 16 {
						n = 16
					}
				}
				in := map[string]interface{}{"content_bytes": size, "goroutines": n, "mode": []string{"Send on a shared connection", "DialAndSend per call", "Send on the shared connection and DialAndSend (some refused at end-of-data) at the same time"}[mode], "jitter": jitter, "auth": authType, "primary_port_unreachable": fallback}
				msgs := make([]*mail.Msg, n)
				for i := range msgs {
					msgs[i] = c13MsgOfSize(i, size)
				}
				errs := make([]error, n)
				var wg sync.WaitGroup
				if shared || mode == 2 {
					if err := client.DialWithContext(context.Background()); err != nil {
						c.Violate("c13-dial", err.Error(), in)
						continue
					}
				}
				start := make(chan struct{})
				for i := 0; i < n; i++ {
					wg.Add(1)
					go func(i int) {
						defer wg.Done()
						<-start
						if shared || (mode == 2 && i%2 == 0) {
							errs[i] = client.Send(msgs[i])
						} else {
							errs[i] = client.DialAndSend(msgs[i])
						}
					}(i)
				}
				close(start)
				allDone := make(chan struct{})
				go func() { wg.Wait(); close(allDone) }()
				select {
				case <-allDone:
				case <-time.After(90 * time.Second):
					// the scripted peers answer at once and the client's timeout is 10 s: goroutines that are still in
					// their calls now are blocked on one another
					c.Violate("c13-deadlock", fmt.Sprintf("%d goroutines started, not all of their Send / DialAndSend calls have returned after 90 s", n), in)
					panic(suiteStop{"concurrent calls on one Client did not return: the suite stops here (its findings so far are reported)"})
				}
				if shared || mode == 2 {
					_ = client.Close()
				}
				c.rep.OracleChecked++
				seen := map[int]int{}
				mu.Lock()
				for _, srv := range servers {
					srv.mu.Lock()
					evs := append([]Event(nil), srv.Events...)
					com := srv.Committed
					srv.mu.Unlock()
					checkTranscript(c, evs, com, in, seen)
				}
				mu.Unlock()
				for i := 0; i < n; i++ {
					if rcptRefused(i) {
						if errs[i] == nil || msgs[i].IsDelivered() || seen[i] != 0 {
							c.Violate("c13-refusal-lost", fmt.Sprintf("the recipient of message %d was refused but the call returned %v, delivered=%v, end-of-data reached %d times", i, errs[i], msgs[i].IsDelivered(), seen[i]), in)
						}
						continue
					}
					if refused(i) {
						// refused at end-of-data: an error for exactly this message, nothing delivered, nobody else disturbed
						if errs[i] == nil || msgs[i].IsDelivered() {
							c.Violate("c13-refusal-lost", fmt.Sprintf("message %d was refused at end-of-data but the call returned %v, delivered=%v", i, errs[i], msgs[i].IsDelivered()), in)
						}
						continue
					}
					if errs[i] != nil {
						c.Violate("c13-send-error", fmt.Sprintf("goroutine %d: %v", i, errs[i]), in)
					}
					if seen[i] != 1 {
						c.Violate("c13-not-exactly-once", fmt.Sprintf("message %d reached end-of-data %d times", i, seen[i]), in)
					}
					if !msgs[i].IsDelivered() {
						c.Violate("c13-not-delivered", fmt.Sprintf("message %d not marked delivered", i), in)
					}
				}
				if round%4 == 3 {
					logged := logSink.String()
					for i := 0; i < n; i++ {
						if k := strings.Count(logged, fmt.Sprintf("MAIL FROM:<sender%d@example.com>", i)); k != 1 {
							c.Violate("c13-log-mixed", fmt.Sprintf("the debug log has %d lines for the MAIL command of message %d (lines of concurrent connections lost, repeated or mixed)", k, i), in)
						}
					}
				}
				c.Count(true, fmt.Sprintf("%d-%d-%d-%d", mode, n, jitter, round), fmt.Sprintf("mode=%d:n=%d", mode, n))
				c.Sample(in)
			}
		}})
}
