package main

import (
	"embed"
	"context"
	"bytes"
	"errors"
	"fmt"
	"io"
	"mime"
	netmail "net/mail"
	"os"
	"path/filepath"
	"strings"
	htmltemplate "html/template"
	texttemplate "text/template"

	mail "github.com/wneessen/go-mail"
)

// ---------------------------------------------------------------------------------------------
// A message specification: the builder calls that produce a Msg. The same spec is applied to the
// real mail.Msg through the public API and serialised as `msg` protocol operations for the model.

type PartSpec struct {
	CType   string  `json:"ctype"`
	Charset *string `json:"charset,omitempty"`
	Enc     *string `json:"enc,omitempty"`
	Desc    string  `json:"desc,omitempty"`
	Content []byte  `json:"content"`
	Fails   bool    `json:"fails,omitempty"`
	Deleted bool    `json:"deleted,omitempty"` // Part.Delete() after the part was added
	// ViaString: the part is added through the string entry points (SetBodyString / AddAlternativeString), whatever
	// the API variant of the message says
	ViaString bool `json:"via_string,omitempty"`
	chunks  [][]byte
}

type FileSpec struct {
	Attach  bool    `json:"attach"`
	Name    string  `json:"name"`
	CType   string  `json:"ctype,omitempty"`
	Desc    string  `json:"desc,omitempty"`
	Enc     string  `json:"enc,omitempty"`
	CID     *string `json:"cid,omitempty"`
	Content []byte  `json:"content"`
	Fails   bool    `json:"fails,omitempty"`
	Source  string  `json:"source,omitempty"` // "" / reader | seeker | fs | iofs | tpl | flaky
	FlakyAt int     `json:"flaky_at,omitempty"` // source "flaky": a read-seeker whose first pass fails after this many bytes
}

// noRewindSeeker reads like its reader; every Seek fails
type noRewindSeeker struct{ r *bytes.Reader }

func (s *noRewindSeeker) Read(p []byte) (int, error) { return s.r.Read(p) }
func (s *noRewindSeeker) Seek(int64, int) (int64, error) {
	return 0, errors.New("seek: illegal seek")
}

// flakySeeker: an io.ReadSeeker over data whose first pass fails (once) after failAt bytes
type flakySeeker struct {
	data    []byte
	pos     int
	failAt  int
	tripped bool
}

var errFlaky = errors.New("transient read error")

func (f *flakySeeker) Read(p []byte) (int, error) {
	if f.pos >= len(f.data) {
		return 0, io.EOF
	}
	end := f.pos + len(p)
	if end > len(f.data) {
		end = len(f.data)
	}
	if !f.tripped && end > f.failAt {
		n := 0
		if f.failAt > f.pos {
			n = copy(p, f.data[f.pos:f.failAt])
		}
		f.pos += n
		f.tripped = true
		// the identity of the error must not matter: a sentinel, or what a truncated stream hands back
		if f.failAt%3 == 1 {
			return n, fmt.Errorf("read chunk: stream closed: %w", io.EOF)
		}
		if f.failAt%3 == 2 {
			return n, io.ErrUnexpectedEOF
		}
		return n, errFlaky
	}
	n := copy(p, f.data[f.pos:end])
	f.pos += n
	return n, nil
}

func (f *flakySeeker) Seek(off int64, whence int) (int64, error) {
	switch whence {
	case io.SeekStart:
		f.pos = int(off)
	case io.SeekCurrent:
		f.pos += int(off)
	case io.SeekEnd:
		f.pos = len(f.data) + int(off)
	}
	if f.pos < 0 {
		f.pos = 0
	}
	return int64(f.pos), nil
}

type AddrOp struct {
	Kind   int      `json:"kind"` // 0 From 1 EnvelopeFrom 2 To 3 Cc 4 Bcc 5 Reply-To
	Mode   string   `json:"mode"` // set | ign | add
	Values []string `json:"values"`
}

type GenOp struct {
	Key    string   `json:"key"`
	Values []string `json:"values"`
	Pre    bool     `json:"pre,omitempty"`
	// Conv: a convenience setter instead of SetGenHeader: bulk | importance-low | importance-high |
	// importance-nonurgent | importance-urgent | importance-normal | org | ua | msgid | mdn
	Conv string `json:"conv,omitempty"`
}

type MsgSpec struct {
	Charset  string     `json:"charset,omitempty"`
	Encoding string     `json:"encoding,omitempty"`
	Boundary string     `json:"boundary,omitempty"`
	NoUA     bool       `json:"noua,omitempty"`
	Gen      []GenOp    `json:"gen,omitempty"`
	Addr     []AddrOp   `json:"addr,omitempty"`
	Parts    []PartSpec `json:"parts,omitempty"`
	Files    []FileSpec `json:"files,omitempty"`
	SMIME    string     `json:"smime,omitempty"` // "", "rsa", "ecdsa" (+"+ic" with intermediate)
	// Variant != 0: the message is built through equivalent API entry points chosen from this seed
	// (setters instead of options, per-header helpers, string / template bodies, fields set after the
	// fact, Reset before building, ...). The operations sent to the model are the same.
	Variant uint64 `json:"variant,omitempty"`
	// Middleware: the message is created WithMiddleware(mw); mw sets the header X-Middleware at render time
	Middleware bool `json:"middleware,omitempty"`
}

var addrKinds = []mail.AddrHeader{mail.HeaderFrom, mail.HeaderEnvelopeFrom, mail.HeaderTo, mail.HeaderCc, mail.HeaderBcc, mail.HeaderReplyTo}

var errProducer = errors.New("producer failed")

// temporary directories created for file-system backed files; removed by cleanupTemp
var tempDirs []string

func cleanupTemp() {
	for _, d := range tempDirs {
		_ = os.RemoveAll(d)
	}
	tempDirs = nil
}

func producer(chunks [][]byte, fails bool) func(io.Writer) (int64, error) {
	return func(w io.Writer) (int64, error) {
		var total int64
		for _, c := range chunks {
			n, err := w.Write(c)
			total += int64(n)
			if err != nil {
				return total, err
			}
		}
		if fails {
			// the identity of a producer's error must not matter: a sentinel, the end-of-file values a
			// truncated source hands back (bare and wrapped), a cancelled context, a closed file
			errs := []error{errProducer, io.EOF, fmt.Errorf("read chunk: connection closed: %w", io.EOF), io.ErrUnexpectedEOF,
				context.Canceled, os.ErrClosed, io.ErrShortWrite, fmt.Errorf("wrapped: %w", errProducer)}
			return total, errs[(int(total)+len(chunks))%len(errs)]
		}
		return total, nil
	}
}

// Build applies the spec to a fresh mail.Msg and returns it together with the protocol operations.
func (sp *MsgSpec) Build() (*mail.Msg, []string, error) {
	var ops []string
	var opts []mail.MsgOption
	vr := NewRng(sp.Variant, "api-variant")
	pick := func(n int) int {
		if sp.Variant == 0 {
			return 0
		}
		return vr.Intn(n)
	}
	var later []func(m *mail.Msg)
	if sp.Charset != "" {
		if pick(2) == 1 {
			later = append(later, func(m *mail.Msg) { m.SetCharset(mail.Charset(sp.Charset)) })
		} else {
			opts = append(opts, mail.WithCharset(mail.Charset(sp.Charset)))
		}
		ops = append(ops, "charset", encS(sp.Charset))
	}
	if sp.Encoding != "" {
		if pick(2) == 1 {
			later = append(later, func(m *mail.Msg) { m.SetEncoding(mail.Encoding(sp.Encoding)) })
		} else {
			opts = append(opts, mail.WithEncoding(mail.Encoding(sp.Encoding)))
		}
		ops = append(ops, "encoding", encS(sp.Encoding))
	}
	if sp.Boundary != "" {
		if pick(2) == 1 {
			later = append(later, func(m *mail.Msg) { m.SetBoundary(sp.Boundary) })
		} else {
			opts = append(opts, mail.WithBoundary(sp.Boundary))
		}
		ops = append(ops, "boundary", encS(sp.Boundary))
	}
	if sp.NoUA {
		opts = append(opts, mail.WithNoDefaultUserAgent())
		ops = append(ops, "noua")
	}
	if pick(3) == 1 {
		opts = append(opts, mail.WithMIMEVersion(mail.MIME10))
	}
	if sp.Middleware {
		opts = append(opts, mail.WithMiddleware(headerMiddleware{}))
	}
	m := mail.NewMsg(opts...)
	for _, f := range later {
		f(m)
	}
	if pick(4) == 1 {
		// a used message that is reset starts over (Reset keeps charset, encoding, boundary)
		m.Subject("left over")
		_ = m.From("left.over@example.com")
		_ = m.To("left.over@example.com", "second.left.over@example.com")
		_ = m.Bcc("hidden.left.over@example.com")
		_ = m.Cc("cc.left.over@example.com")
		_ = m.ReplyTo("reply.left.over@example.com")
		_ = m.EnvelopeFrom("bounce.left.over@example.com")
		m.SetGenHeader("X-Left-Over", "generic header of the earlier use")
		m.SetGenHeaderPreformatted("X-Left-Over-Pre", "preformatted header of the earlier use")
		m.SetMessageIDWithValue("left.over@example.com")
		m.SetBulk()
		_ = m.RequestMDNTo("mdn.left.over@example.com")
		m.SetBodyString(mail.TypeTextPlain, "left over body")
		m.AddAlternativeString(mail.TypeTextHTML, "<p>left over</p>")
		_ = m.AttachReader("left-over.txt", strings.NewReader("left over attachment"))
		_ = m.EmbedReader("left-over.png", strings.NewReader("left over embed"))
		m.Reset()
	}
	gen := func(key string, values ...string) {
		ops = append(ops, "gen", encS(key), encLS(values))
	}
	for _, g := range sp.Gen {
		if g.Pre {
			if pick(2) == 1 {
				m.SetHeaderPreformatted(mail.Header(g.Key), g.Values[0])
			} else {
				m.SetGenHeaderPreformatted(mail.Header(g.Key), g.Values[0])
			}
			ops = append(ops, "pre", encS(g.Key), encS(g.Values[0]))
			continue
		}
		v0 := ""
		if len(g.Values) > 0 {
			v0 = g.Values[0]
		}
		switch g.Conv {
		case "bulk":
			m.SetBulk()
			gen("Precedence", "bulk")
			gen("X-Auto-Response-Suppress", "All")
			continue
		case "importance-low", "importance-high", "importance-nonurgent", "importance-urgent", "importance-normal":
			imp := map[string]mail.Importance{"importance-low": mail.ImportanceLow, "importance-high": mail.ImportanceHigh,
				"importance-nonurgent": mail.ImportanceNonUrgent, "importance-urgent": mail.ImportanceUrgent, "importance-normal": mail.ImportanceNormal}[g.Conv]
			m.SetImportance(imp)
			tab := map[string][3]string{"importance-low": {"low", "0", "5"}, "importance-high": {"high", "1", "1"},
				"importance-nonurgent": {"non-urgent", "0", "5"}, "importance-urgent": {"urgent", "1", "1"}}
			if t, ok := tab[g.Conv]; ok {
				gen("Importance", t[0])
				gen("Priority", t[1])
				gen("X-Priority", t[2])
				gen("X-MSMail-Priority", t[1])
			}
			continue
		case "org":
			m.SetOrganization(v0)
			gen("Organization", v0)
			continue
		case "ua":
			m.SetUserAgent(v0)
			gen("User-Agent", v0)
			gen("X-Mailer", v0)
			continue
		case "msgid":
			m.SetMessageIDWithValue(v0)
			gen("Message-ID", "<"+v0+">")
			continue
		case "mdn":
			var strs []string
			okAll := true
			for _, v := range g.Values {
				ad, err := netmail.ParseAddress(v)
				if err != nil {
					okAll = false
					break
				}
				strs = append(strs, mail.VerifAddressString(ad))
			}
			err := m.RequestMDNTo(g.Values...)
			if (err == nil) != okAll {
				return nil, nil, fmt.Errorf("RequestMDNTo: error %v, but net/mail accepts all addresses: %v", err, okAll)
			}
			if okAll {
				// stored as net/mail renders them, not passed through the header encoder
				ops = append(ops, "genraw", encS("Disposition-Notification-To"), encLS(strs))
			}
			continue
		}
		vals := append([]string(nil), g.Values...) // SetGenHeader encodes in place
		switch {
		case pick(3) == 1:
			m.SetHeader(mail.Header(g.Key), vals...)
		case g.Key == "Subject" && len(vals) == 1 && pick(2) == 1:
			m.Subject(vals[0])
		default:
			m.SetGenHeader(mail.Header(g.Key), vals...)
		}
		ops = append(ops, "gen", encS(g.Key), encLS(g.Values))
	}
	for _, a := range sp.Addr {
		oks, strs, bares := parseAll(m, a)
		switch a.Mode {
		case "set":
			joinable := true
			for _, v := range a.Values {
				if strings.Contains(v, ",") || strings.TrimSpace(v) != v || v == "" {
					joinable = false
				}
			}
			v := pick(3)
			if len(a.Values) == 0 && a.Kind >= 2 && a.Kind <= 4 {
				// emptying a list: through every entry point, whatever the variant seed says
				v = (len(ops) + a.Kind) % 3
			}
			switch {
			case v == 1 && a.Kind == 0 && len(a.Values) == 1:
				_ = m.From(a.Values[0])
			case v == 1 && a.Kind == 1 && len(a.Values) == 1:
				_ = m.EnvelopeFrom(a.Values[0])
			case v == 1 && a.Kind == 5 && len(a.Values) == 1:
				_ = m.ReplyTo(a.Values[0])
			case v == 1 && a.Kind == 2:
				_ = m.To(a.Values...)
			case v == 1 && a.Kind == 3:
				_ = m.Cc(a.Values...)
			case v == 1 && a.Kind == 4:
				_ = m.Bcc(a.Values...)
			case v == 2 && a.Kind == 2 && joinable:
				// an empty list: "", blanks, separators only
				_ = m.ToFromString(strings.Join(a.Values, ", ") + []string{"", " ", ",", " , ,"}[pick(4)])
			case v == 2 && a.Kind == 3 && joinable:
				_ = m.CcFromString([]string{"", " ", ",", ", "}[pick(4)] + strings.Join(a.Values, " ,"))
			case v == 2 && a.Kind == 4 && joinable:
				_ = m.BccFromString(strings.Join(a.Values, ",") + []string{"", "", ",", " "}[pick(4)])
			default:
				_ = m.SetAddrHeader(addrKinds[a.Kind], a.Values...)
			}
			ops = append(ops, "addr", encN(a.Kind), encLS(oks), encLS(strs), encLS(bares))
		case "ign":
			switch v := pick(2); {
			case v == 1 && a.Kind == 2:
				m.ToIgnoreInvalid(a.Values...)
			case v == 1 && a.Kind == 3:
				m.CcIgnoreInvalid(a.Values...)
			case v == 1 && a.Kind == 4:
				m.BccIgnoreInvalid(a.Values...)
			default:
				m.SetAddrHeaderIgnoreInvalid(addrKinds[a.Kind], a.Values...)
			}
			ops = append(ops, "addrign", encN(a.Kind), encLS(oks), encLS(strs), encLS(bares))
		case "add":
			// AddTo / AddCc / AddBcc are addAddr on the respective header
			var err error
			switch a.Kind {
			case 2:
				err = m.AddTo(a.Values[0])
			case 3:
				err = m.AddCc(a.Values[0])
			case 4:
				err = m.AddBcc(a.Values[0])
			default:
				return nil, nil, fmt.Errorf("add on kind %d", a.Kind)
			}
			_ = err
			ops = append(ops, "addradd", encN(a.Kind), encLS(oks), encLS(strs), encLS(bares))
		}
	}
	for i := range sp.Parts {
		p := &sp.Parts[i]
		var po []mail.PartOption
		cs, en := "-", "-"
		if p.Charset != nil {
			po = append(po, mail.WithPartCharset(mail.Charset(*p.Charset)))
			cs = encS(*p.Charset)
		}
		if p.Enc != nil {
			po = append(po, mail.WithPartEncoding(mail.Encoding(*p.Enc)))
			en = encS(*p.Enc)
		}
		if p.Desc != "" {
			po = append(po, mail.WithPartContentDescription(p.Desc))
		}
		chunks := p.chunks
		if chunks == nil {
			chunks = [][]byte{p.Content}
		}
		op := "alt"
		if i == 0 {
			op = "body"
		}
		ct := mail.ContentType(p.CType)
		variant := pick(4)
		if p.ViaString && !p.Fails {
			variant = 1
		}
		var terr error
		switch {
		case variant == 1 && !p.Fails:
			// the string entry points
			if i == 0 {
				m.SetBodyString(ct, string(p.Content), po...)
			} else {
				m.AddAlternativeString(ct, string(p.Content), po...)
			}
		case variant == 2:
			// everything but the content set on the Part after the fact
			if i == 0 {
				m.SetBodyWriter("application/x-placeholder", producer(chunks, p.Fails))
			} else {
				m.AddAlternativeWriter("application/x-placeholder", producer(chunks, p.Fails))
			}
			parts := m.GetParts()
			part := parts[len(parts)-1]
			part.SetContentType(ct)
			if p.Charset != nil {
				part.SetCharset(mail.Charset(*p.Charset))
			}
			if p.Enc != nil {
				part.SetEncoding(mail.Encoding(*p.Enc))
			}
			if p.Desc != "" {
				part.SetDescription(p.Desc)
			}
		case variant == 3 && !p.Fails && p.CType == "text/plain":
			tpl, perr := texttemplate.New("t").Parse("{{.}}")
			if perr != nil {
				return nil, nil, perr
			}
			if i == 0 {
				terr = m.SetBodyTextTemplate(tpl, string(p.Content), po...)
			} else {
				terr = m.AddAlternativeTextTemplate(tpl, string(p.Content), po...)
			}
		case variant == 3 && !p.Fails && p.CType == "text/html":
			tpl, perr := htmltemplate.New("t").Parse("{{.}}")
			if perr != nil {
				return nil, nil, perr
			}
			if i == 0 {
				terr = m.SetBodyHTMLTemplate(tpl, htmltemplate.HTML(p.Content), po...)
			} else {
				terr = m.AddAlternativeHTMLTemplate(tpl, htmltemplate.HTML(p.Content), po...)
			}
		default:
			if i == 0 {
				m.SetBodyWriter(ct, producer(chunks, p.Fails), po...)
			} else {
				m.AddAlternativeWriter(ct, producer(chunks, p.Fails), po...)
			}
		}
		if terr != nil {
			return nil, nil, terr
		}
		ops = append(ops, op, encS(p.CType), cs, en, encS(p.Desc), encB(p.Content), encBool(p.Fails))
	}
	for i := range sp.Parts {
		if sp.Parts[i].Deleted {
			m.GetParts()[i].Delete()
			ops = append(ops, "delpart", encN(i))
		}
	}
	var sharedBuf *bytes.Buffer
	for i := range sp.Files {
		f := &sp.Files[i]
		var fo []mail.FileOption
		var fieldsLater []func(fl *mail.File)
		afterwards := pick(3) == 1
		if f.CType != "" {
			if afterwards {
				fieldsLater = append(fieldsLater, func(fl *mail.File) { fl.ContentType = mail.ContentType(f.CType) })
			} else {
				fo = append(fo, mail.WithFileContentType(mail.ContentType(f.CType)))
			}
		}
		if f.Desc != "" {
			if afterwards {
				fieldsLater = append(fieldsLater, func(fl *mail.File) { fl.Desc = f.Desc })
			} else {
				fo = append(fo, mail.WithFileDescription(f.Desc))
			}
		}
		if f.Enc != "" {
			if afterwards && f.Enc != "quoted-printable" {
				fieldsLater = append(fieldsLater, func(fl *mail.File) { fl.Enc = mail.Encoding(f.Enc) })
			} else {
				fo = append(fo, mail.WithFileEncoding(mail.Encoding(f.Enc)))
			}
		}
		cid := "-"
		if f.CID != nil {
			fo = append(fo, mail.WithFileContentID(*f.CID))
			cid = encS(*f.CID)
		}
		var err error
		switch f.Source {
		case "norewind":
			// a source that can be read but not rewound (the read end of a pipe): the producer emits everything and
			// then reports the failed rewind
			src := &noRewindSeeker{r: bytes.NewReader(f.Content)}
			if f.Attach {
				m.AttachReadSeeker(f.Name, src, fo...)
			} else {
				m.EmbedReadSeeker(f.Name, src, fo...)
			}
		case "flaky":
			src := &flakySeeker{data: f.Content, failAt: f.FlakyAt}
			if f.Attach {
				m.AttachReadSeeker(f.Name, src, fo...)
			} else {
				m.EmbedReadSeeker(f.Name, src, fo...)
			}
		case "seeker":
			if f.Attach {
				m.AttachReadSeeker(f.Name, bytes.NewReader(f.Content), fo...)
			} else {
				m.EmbedReadSeeker(f.Name, bytes.NewReader(f.Content), fo...)
			}
		case "fs", "iofs":
			dir, derr := os.MkdirTemp("", "gmverif-files-")
			if derr != nil {
				return nil, nil, derr
			}
			tempDirs = append(tempDirs, dir)
			base := "file" + safeExt(f.Name)
			if werr := os.WriteFile(filepath.Join(dir, base), f.Content, 0o600); werr != nil {
				return nil, nil, werr
			}
			fo = append(fo, mail.WithFileName(f.Name))
			if f.Source == "fs" {
				if f.Attach {
					m.AttachFile(filepath.Join(dir, base), fo...)
				} else {
					m.EmbedFile(filepath.Join(dir, base), fo...)
				}
			} else {
				if f.Attach {
					err = m.AttachFromIOFS(base, os.DirFS(dir), fo...)
				} else {
					err = m.EmbedFromIOFS(base, os.DirFS(dir), fo...)
				}
			}
		case "fs-dir", "fs-gone":
			// a path that exists when the file is attached but cannot be read when the message is rendered:
			// it is a directory / it has been removed. The producer fails before it emits anything.
			dir, derr := os.MkdirTemp("", "gmverif-files-")
			if derr != nil {
				return nil, nil, derr
			}
			tempDirs = append(tempDirs, dir)
			path := filepath.Join(dir, "file"+safeExt(f.Name))
			if f.Source == "fs-dir" {
				if merr := os.Mkdir(path, 0o700); merr != nil {
					return nil, nil, merr
				}
			} else if werr := os.WriteFile(path, f.Content, 0o600); werr != nil {
				return nil, nil, werr
			}
			fo = append(fo, mail.WithFileName(f.Name))
			if f.Attach {
				m.AttachFile(path, fo...)
			} else {
				m.EmbedFile(path, fo...)
			}
			if f.Source == "fs-gone" {
				_ = os.Remove(path)
			}
			f.Content = nil
			f.Fails = true
			tbe := mime.TypeByExtension(filepath.Ext(f.Name))
			modelEnc := f.Enc
			if modelEnc == "quoted-printable" {
				modelEnc = ""
			}
			for _, set := range fieldsLater {
				if f.Attach {
					l := m.GetAttachments()
					set(l[len(l)-1])
				} else {
					l := m.GetEmbeds()
					set(l[len(l)-1])
				}
			}
			ops = append(ops, "file", encBool(f.Attach), encS(f.Name), encS(f.CType), encS(f.Desc), encS(modelEnc), cid, encS(tbe), encB(nil), encBool(true))
			continue
		case "partly-read":
			// a reader the caller has already consumed a prefix of: the file is the rest, in every render
			rd := bytes.NewReader(append([]byte("RECORD-HEADER-ALREADY-CONSUMED:"), f.Content...))
			_, _ = rd.Read(make([]byte, len("RECORD-HEADER-ALREADY-CONSUMED:")))
			if f.Attach {
				err = m.AttachReader(f.Name, rd, fo...)
			} else {
				err = m.EmbedReader(f.Name, rd, fo...)
			}
		case "embedfs":
			// a file compiled into the program (embed.FS); its content is what it is
			f.Content = embeddedAsset
			fo = append(fo, mail.WithFileName(f.Name))
			if f.Attach {
				err = m.AttachFromEmbedFS("embedded/asset.txt", &embeddedFS, fo...)
			} else {
				err = m.EmbedFromEmbedFS("embedded/asset.txt", &embeddedFS, fo...)
			}
		case "htmltpl":
			tpl, terr := htmltemplate.New("t").Parse("{{.}}")
			if terr != nil {
				return nil, nil, terr
			}
			if f.Attach {
				err = m.AttachHTMLTemplate(f.Name, tpl, htmltemplate.HTML(f.Content), fo...)
			} else {
				err = m.EmbedHTMLTemplate(f.Name, tpl, htmltemplate.HTML(f.Content), fo...)
			}
		case "tpl":
			tpl, terr := texttemplate.New("t").Parse("{{.}}")
			if terr != nil {
				return nil, nil, terr
			}
			if f.Attach {
				err = m.AttachTextTemplate(f.Name, tpl, string(f.Content), fo...)
			} else {
				err = m.EmbedTextTemplate(f.Name, tpl, string(f.Content), fo...)
			}
		default:
			var src io.Reader = bytes.NewReader(f.Content)
			if pick(3) == 1 {
				// one buffer of the caller, filled again for every file and for other purposes afterwards
				if sharedBuf == nil {
					sharedBuf = &bytes.Buffer{}
				}
				sharedBuf.Reset()
				sharedBuf.Write(f.Content)
				src = sharedBuf
			}
			if f.Attach {
				err = m.AttachReader(f.Name, src, fo...)
			} else {
				err = m.EmbedReader(f.Name, src, fo...)
			}
		}
		if err != nil {
			return nil, nil, err
		}
		if len(fieldsLater) > 0 {
			var fl *mail.File
			if f.Attach {
				l := m.GetAttachments()
				fl = l[len(l)-1]
			} else {
				l := m.GetEmbeds()
				fl = l[len(l)-1]
			}
			for _, set := range fieldsLater {
				set(fl)
			}
		}
		if f.Fails && f.Source != "norewind" {
			var fl *mail.File
			if f.Attach {
				l := m.GetAttachments()
				fl = l[len(l)-1]
			} else {
				l := m.GetEmbeds()
				fl = l[len(l)-1]
			}
			fl.Writer = producer([][]byte{f.Content}, true)
		}
		tbe := mime.TypeByExtension(filepath.Ext(f.Name))
		modelEnc := f.Enc
		if modelEnc == "quoted-printable" {
			modelEnc = "" // WithFileEncoding ignores quoted-printable
		}
		if f.Source == "flaky" {
			// until the source has failed once, the producer writes the first FlakyAt bytes and fails
			ops = append(ops, "file", encBool(f.Attach), encS(f.Name), encS(f.CType), encS(f.Desc), encS(modelEnc), cid, encS(tbe), encB(f.Content[:f.FlakyAt]), encBool(true))
			continue
		}
		ops = append(ops, "file", encBool(f.Attach), encS(f.Name), encS(f.CType), encS(f.Desc), encS(modelEnc), cid, encS(tbe), encB(f.Content), encBool(f.Fails))
	}
	if sharedBuf != nil {
		sharedBuf.Reset()
		sharedBuf.Write(bytes.Repeat([]byte("#the caller went on using its buffer#"), 200))
	}
	switch pick(4) {
	case 1:
		// the list setters, fed with what the getters return
		m.SetAttachments(m.GetAttachments())
		m.SetEmbeds(m.GetEmbeds())
	case 2:
		att, emb := m.GetAttachments(), m.GetEmbeds()
		m.UnsetAllAttachments()
		m.UnsetAllEmbeds()
		m.SetAttachments(att)
		m.SetEmbeds(emb)
	}
	if sp.Middleware {
		// applied by every render before anything is written: the same as the header having been set
		ops = append(ops, "gen", encS("X-Middleware"), encLS([]string{"set by the middleware"}))
	}
	if sp.SMIME != "" {
		if err := signWith(m, sp.SMIME, pick(3)); err != nil {
			return nil, nil, err
		}
		ops = append(ops, "smime")
	}
	return m, ops, nil
}

// parseAll computes what net/mail.ParseAddress makes of every value of an address operation
// (the model takes these results as parameters)
func parseAll(m *mail.Msg, a AddrOp) (oks, strs, bares []string) {
	for _, v := range a.Values {
		in := v
		if a.Mode == "ign" {
			in = mail.VerifEncodeString(m, v)
		}
		ad, err := netmail.ParseAddress(in)
		if err != nil {
			oks = append(oks, "0")
			strs = append(strs, "")
			bares = append(bares, "")
			continue
		}
		oks = append(oks, "1")
		strs = append(strs, mail.VerifAddressString(ad))
		bares = append(bares, ad.Address)
	}
	return
}

// limitedWriter accepts `limit` bytes and then fails every non-empty write (short write first)
type limitedWriter struct {
	buf   bytes.Buffer
	limit int // <0: unlimited
}

func (w *limitedWriter) Write(p []byte) (int, error) {
	if w.limit < 0 || w.buf.Len()+len(p) <= w.limit {
		w.buf.Write(p)
		return len(p), nil
	}
	room := w.limit - w.buf.Len()
	w.buf.Write(p[:room])
	return room, errors.New("destination full")
}

type renderResult struct {
	out    []byte
	n      int64
	err    error
	panic  interface{}
	line   string // the protocol op for this render (writeto ...)
	signed []byte
}

// renderOnce runs Msg.WriteTo against a destination with the given limit and produces the matching
// `writeto` operation (entropy read back from the message and its output).
func renderOnce(m *mail.Msg, limit int) (res renderResult) {
	w := &limitedWriter{limit: limit}
	func() {
		defer func() {
			if r := recover(); r != nil {
				res.panic = r
			}
		}()
		res.n, res.err = m.WriteTo(w)
	}()
	res.out = w.buf.Bytes()
	date, msgid := "", ""
	if v := m.GetGenHeader(mail.HeaderDate); len(v) > 0 {
		date = v[0]
	}
	if v := m.GetGenHeader(mail.HeaderMessageID); len(v) > 0 {
		msgid = v[0]
	}
	bm, br, ba := mail.VerifBoundaries(m)
	bs, sig := "", []byte(nil)
	if i := bytes.Index(res.out, []byte("Content-Type: multipart/signed;")); i >= 0 {
		rest := res.out[i:]
		if j := bytes.Index(rest, []byte("boundary=")); j >= 0 {
			rest = rest[j+9:]
			if k := bytes.Index(rest, []byte("\r\n")); k >= 0 {
				bs = string(rest[:k])
			} else {
				bs = string(rest)
			}
		}
	}
	if parts := m.GetParts(); len(parts) > 0 {
		last := parts[len(parts)-1]
		if strings.HasPrefix(string(last.GetContentType()), "application/pkcs7-signature") {
			sig, _ = last.GetContent()
		}
	}
	lim := "-"
	if limit >= 0 {
		lim = encN(limit)
	}
	res.line = strings.Join([]string{"writeto", encS(date), encS(msgid), encS(bm), encS(br), encS(ba), encS(bs), encB(sig), lim}, " ")
	return
}

func (r renderResult) want() string {
	return encB(r.out) + " " + encN(int(r.n)) + " " + encBool(r.err != nil)
}

// ---------------------------------------------------------------------------------------------
// spec generator

var ctypes = []string{"text/plain", "text/html", "text/plain", "text/html", "text/x-custom"}
var charsets = []string{"UTF-8", "ISO-8859-1", "utf-8", "US-ASCII"}
var fileNames = []string{"file.txt", "image.png", "doc.pdf", "no-extension", "with space.txt", "ümlaut.txt", "a;b=c.txt", "q\"uote.bin", "path/evil.txt",
	"a-very-long-file-name-that-goes-on-and-on-and-on-for-more-than-fifty-characters.dat", "tab\tname.txt", "ctrl\r\nname.txt", "日本語.txt", ".hidden", "x.UNKNOWNEXT",
	"Квартальный отчёт за 2024 год.pdf", "Übersichtsgrafik der Jahresabschlussprüfung für Österreich.png", "非常に長い日本語のファイル名の例ですよ.txt",
	"a long, mostly ASCII file name with one ümlaut that needs more than one encoded-word.txt",
	"caf\xe9 men\xfc.txt", "data\xff\xfe.bin", "half\xc3.txt"}
var genKeys = []string{"User-Agent", "X-Mailer", "Date", "Message-ID", "MIME-Version", "Subject", "Organization", "X-Custom", "In-Reply-To", "References", "Importance", "X-Priority", "List-Unsubscribe", "Precedence"}
var goodAddrs = []string{"alice@example.com", "Bob <bob@example.org>", "\"Last, First\" <lf@example.net>", "Jürgen Müller <jm@example.de>", "\"quoted local\"@example.com",
	"<carol@example.com>", "dave+tag@sub.example.co.uk", "\"a b>c\"@example.com", "Eve (comment) <eve@example.com>", "=?UTF-8?q?Enc?= <enc@example.com>",
	"\"Very Long Display Name That Goes On And On And On For Quite A While Indeed\" <long@example.com>",
	"reply+4f8a1c7e9b2d4a6f8c0e1a3b5d7f9e1c3a5b7d9f1e3c5a7b9d1f3e5a7c9b1d3f@bounces.mailing-list-provider.example.com",
	"Someone With A Display Name <a-rather-long-local-part-that-goes-on.and-on.and-on.until-it-is-more-than-seventy-five-characters-long@sub.domain.example.org>",
	"عل\u200cرضا@example.com", "soft\u00adhyphen@example.com", "Zero\u200bWidth <zw\u200bsp@example.com>", "\"bidi \u202e name\" <bi\u200ddi@example.com>", "ümlaut@example.com", "bom\ufeff@example.com",
	"\"Zoë \\\\ Backslash\" <zoe@example.com>", "\"Quote \\\" and \\\\ in ASCII\" <q@example.com>", "\"名前 \\\\\" <cjk@example.com>"}
var badAddrs = []string{"invalid", "", "@", "a@", "two@@example.com", "x y z", "<>", "a@b@c"}

func sp(s string) *string { return &s }

func genAddrValue(r *Rng) string {
	if r.Chance(12) {
		return badAddrs[r.Intn(len(badAddrs))]
	}
	if r.Chance(15) {
		// display name from the adversarial text generator
		return fmt.Sprintf("%q <user%d@example.com>", genText(r, 4), r.Intn(100))
	}
	return goodAddrs[r.Intn(len(goodAddrs))]
}

type genOpts struct {
	maxParts, maxFiles int
	textHeavy          bool // adversarial header text
	encodings          []string
	noFails            bool
	smallContent       bool
	noVariants         bool // canonical API entry points only, no deleted parts
}

func genSpec(r *Rng, o genOpts) *MsgSpec {
	spc := &MsgSpec{}
	if r.Chance(25) {
		spc.Charset = charsets[r.Intn(len(charsets))]
	}
	encs := o.encodings
	if encs == nil {
		encs = []string{"quoted-printable", "base64", "8bit"}
	}
	if r.Chance(50) {
		spc.Encoding = encs[r.Intn(len(encs))]
	}
	if r.Chance(10) {
		spc.Boundary = []string{"user-boundary-123", "b", "with space inside", "invalid_end ", "bad\"char"}[r.Intn(5)]
	}
	spc.NoUA = r.Chance(15)
	// generic headers
	ng := r.Intn(4)
	for i := 0; i < ng; i++ {
		g := GenOp{Key: genKeys[r.Intn(len(genKeys))]}
		nv := 1
		if r.Chance(15) {
			nv = r.Intn(3)
		}
		for j := 0; j < nv; j++ {
			if r.Chance(12) {
				g.Values = append(g.Values, genFoldEdge(r))
			} else if o.textHeavy || r.Chance(40) {
				g.Values = append(g.Values, genText(r, 8))
			} else {
				g.Values = append(g.Values, genSetterValue(r))
			}
		}
		spc.Gen = append(spc.Gen, g)
	}
	if r.Chance(25) {
		// the convenience setters
		switch r.Intn(6) {
		case 0:
			spc.Gen = append(spc.Gen, GenOp{Conv: "bulk"})
		case 1:
			spc.Gen = append(spc.Gen, GenOp{Conv: []string{"importance-low", "importance-high", "importance-nonurgent", "importance-urgent", "importance-normal"}[r.Intn(5)]})
		case 2:
			spc.Gen = append(spc.Gen, GenOp{Conv: "org", Values: []string{genText(r, 5)}})
		case 3:
			spc.Gen = append(spc.Gen, GenOp{Conv: "ua", Values: []string{genSetterValue(r)}})
		case 4:
			spc.Gen = append(spc.Gen, GenOp{Conv: "msgid", Values: []string{[]string{"fixed.id@example.com", genText(r, 2), "a b@c", "x@y>\r\nInjected: 1"}[r.Intn(4)]}})
		default:
			g := GenOp{Conv: "mdn"}
			for j := 0; j < 1+r.Intn(2); j++ {
				g.Values = append(g.Values, genAddrValue(r))
			}
			spc.Gen = append(spc.Gen, g)
		}
	}
	if r.Chance(10) {
		spc.Gen = append(spc.Gen, GenOp{Key: "X-Preformatted", Values: []string{"line one\r\n line two"}, Pre: true})
		if r.Chance(50) {
			spc.Gen = append(spc.Gen, GenOp{Key: "X-Another-Pre", Values: []string{"v"}, Pre: true})
		}
	}
	// addresses
	na := 1 + r.Intn(5)
	for i := 0; i < na; i++ {
		a := AddrOp{Kind: r.Intn(6)}
		if i == 0 {
			a.Kind = 0
		} else if i == 1 {
			a.Kind = 2
		}
		switch r.Intn(5) {
		case 0:
			a.Mode = "ign"
		case 1:
			if a.Kind >= 2 && a.Kind <= 4 {
				a.Mode = "add"
			} else {
				a.Mode = "set"
			}
		default:
			a.Mode = "set"
		}
		nv := 1 + r.Intn(3)
		if a.Mode == "add" || a.Kind == 5 || a.Kind == 1 {
			nv = 1
		}
		if r.Chance(5) && a.Mode != "add" {
			nv = 0
		}
		for j := 0; j < nv; j++ {
			a.Values = append(a.Values, genAddrValue(r))
		}
		spc.Addr = append(spc.Addr, a)
	}
	// parts
	np := 1
	switch {
	case r.Chance(8):
		np = 0
	case r.Chance(40):
		np = 2 + r.Intn(max(1, o.maxParts-1))
	}
	if np > o.maxParts {
		np = o.maxParts
	}
	clen := 300
	if o.smallContent {
		clen = 40
	}
	anyDeleted := false
	for i := 0; i < np; i++ {
		p := PartSpec{CType: ctypes[r.Intn(len(ctypes))], Content: genBody(r, genLen(r, clen))}
		if r.Chance(20) {
			p.Charset = sp(charsets[r.Intn(len(charsets))])
		}
		if r.Chance(40) {
			p.Enc = sp(encs[r.Intn(len(encs))])
		}
		if r.Chance(20) {
			if r.Chance(12) {
				// printable text beyond the 998 character line limit with a very long word in it
				p.Desc = []string{"note ", "note X-Injected:yes;", ""}[r.Intn(3)] + strings.Repeat("a", 960+r.Intn(80)) + " end of the note"
			} else if r.Chance(10) {
				p.Desc = genFoldEdge(r)
			} else if o.textHeavy || r.Chance(50) {
				p.Desc = genText(r, 6)
			} else {
				p.Desc = "A part description"
			}
		}
		p.chunks = genChunks(r, p.Content)
		if !o.noFails && r.Chance(4) {
			p.Fails = true
		}
		if !o.noVariants && np >= 2 && !anyDeleted && r.Chance(6) {
			// one of several parts is deleted again (never the only one: a message whose parts are all
			// deleted is outside what the properties describe)
			p.Deleted = true
			anyDeleted = true
		}
		spc.Parts = append(spc.Parts, p)
	}
	// files
	nf := 0
	if r.Chance(60) {
		nf = 1 + r.Intn(o.maxFiles)
	}
	for i := 0; i < nf; i++ {
		f := FileSpec{Attach: r.Bool(), Name: fileNames[r.Intn(len(fileNames))], Content: genBody(r, genLen(r, clen))}
		if o.textHeavy && r.Chance(50) {
			f.Name = genText(r, 5)
		}
		if r.Chance(20) {
			f.CType = []string{"application/x-custom", "text/csv", "image/jpeg"}[r.Intn(3)]
		}
		if r.Chance(25) {
			if r.Chance(10) {
				f.Desc = []string{"file ", "file X-Injected:yes;", ""}[r.Intn(3)] + strings.Repeat("b", 960+r.Intn(80)) + " end of the description"
			} else if o.textHeavy || r.Chance(50) {
				f.Desc = genText(r, 6)
			} else {
				f.Desc = "A file description"
			}
		}
		if r.Chance(30) {
			f.Enc = []string{"base64", "8bit", "quoted-printable"}[r.Intn(3)]
		}
		if r.Chance(20) {
			if o.textHeavy || r.Chance(50) {
				f.CID = sp(genText(r, 4))
			} else {
				f.CID = sp("cid-" + fmt.Sprint(r.Intn(100)) + "@example.com")
			}
		}
		if !o.noFails && r.Chance(4) {
			f.Fails = true
		}
		spc.Files = append(spc.Files, f)
	}
	if !o.noVariants && r.Chance(50) {
		spc.Variant = r.U64() | 1
	}
	if !o.noVariants && r.Chance(8) {
		spc.Middleware = true
	}
	if !o.noVariants {
		for i := range spc.Files {
			f := &spc.Files[i]
			if f.Fails || !r.Chance(35) {
				continue
			}
			f.Source = []string{"seeker", "fs", "iofs", "tpl", "htmltpl", "embedfs", "partly-read", "partly-read"}[r.Intn(8)]
			if f.Source == "tpl" || f.Source == "htmltpl" {
				// templates carry text: valid UTF-8 free of template actions
				f.Content = []byte(strings.ToValidUTF8(strings.ReplaceAll(string(f.Content), "{{", "{ {"), "?"))
			}
		}
	}
	return spc
}

func max(a, b int) int {
	if a > b {
		return a
	}
	return b
}

type headerMiddleware struct{}

func (headerMiddleware) Handle(m *mail.Msg) *mail.Msg {
	m.SetGenHeader("X-Middleware", "set by the middleware")
	return m
}
func (headerMiddleware) Type() mail.MiddlewareType { return "gmverif-header" }

//go:embed embedded/asset.txt
var embeddedFS embed.FS

//go:embed embedded/asset.txt
var embeddedAsset []byte

// safeExt: the extension of name if it can be part of a path on disk, else ".dat" (the name the message
// carries is set with WithFileName; the name on disk does not matter)
func safeExt(name string) string {
	ext := filepath.Ext(name)
	for i := 0; i < len(ext); i++ {
		ch := ext[i]
		if !(ch == '.' || ch >= '0' && ch <= '9' || ch >= 'a' && ch <= 'z' || ch >= 'A' && ch <= 'Z') {
			return ".dat"
		}
	}
	if len(ext) > 20 {
		return ".dat"
	}
	return ext
}

// expandedGen: the generic header operations with the convenience setters replaced by what they are
// documented to set (for the oracles; Disposition-Notification-To carries no value to compare)
func (sp *MsgSpec) expandedGen() []GenOp {
	var out []GenOp
	for _, g := range sp.Gen {
		v0 := ""
		if len(g.Values) > 0 {
			v0 = g.Values[0]
		}
		switch g.Conv {
		case "":
			out = append(out, g)
		case "bulk":
			out = append(out, GenOp{Key: "Precedence", Values: []string{"bulk"}}, GenOp{Key: "X-Auto-Response-Suppress", Values: []string{"All"}})
		case "importance-normal":
		case "importance-low", "importance-nonurgent":
			out = append(out, GenOp{Key: "Importance", Values: []string{map[string]string{"importance-low": "low", "importance-nonurgent": "non-urgent"}[g.Conv]}},
				GenOp{Key: "Priority", Values: []string{"0"}}, GenOp{Key: "X-Priority", Values: []string{"5"}}, GenOp{Key: "X-MSMail-Priority", Values: []string{"0"}})
		case "importance-high", "importance-urgent":
			out = append(out, GenOp{Key: "Importance", Values: []string{map[string]string{"importance-high": "high", "importance-urgent": "urgent"}[g.Conv]}},
				GenOp{Key: "Priority", Values: []string{"1"}}, GenOp{Key: "X-Priority", Values: []string{"1"}}, GenOp{Key: "X-MSMail-Priority", Values: []string{"1"}})
		case "org":
			out = append(out, GenOp{Key: "Organization", Values: []string{v0}})
		case "ua":
			out = append(out, GenOp{Key: "User-Agent", Values: []string{v0}}, GenOp{Key: "X-Mailer", Values: []string{v0}})
		case "msgid":
			out = append(out, GenOp{Key: "Message-ID", Values: []string{"<" + v0 + ">"}})
		case "mdn":
			out = append(out, GenOp{Key: "Disposition-Notification-To"})
		}
	}
	if sp.Middleware {
		out = append(out, GenOp{Key: "X-Middleware", Values: []string{"set by the middleware"}})
	}
	return out
}

// liveParts: the body parts that were not deleted again
func (sp *MsgSpec) liveParts() []PartSpec {
	var out []PartSpec
	for _, p := range sp.Parts {
		if !p.Deleted {
			out = append(out, p)
		}
	}
	return out
}

func (sp *MsgSpec) shape() string {
	ne, na := 0, 0
	for _, f := range sp.Files {
		if f.Attach {
			na++
		} else {
			ne++
		}
	}
	return fmt.Sprintf("p%d-e%d-a%d", min(len(sp.Parts), 3), min(ne, 2), min(na, 2))
}

// scaleUp makes one dimension of a generated message large: sizes beyond every buffer of the writer and the
// encoders (4 KiB, 32 KiB, 64 KiB), counts beyond small fixed capacities. Used for a few cases per run.
func scaleUp(r *Rng, spc *MsgSpec) string {
	text := func(n int) []byte {
		var b bytes.Buffer
		for b.Len() < n {
			l := []int{0, 1, 20, 75, 76, 77, 200, 997, 998, 999, 1000, 5000}[r.Intn(12)]
			for k := 0; k < l; k++ {
				if k%9 == 8 {
					b.WriteByte(' ')
				} else {
					b.WriteByte(byte('a' + (k+b.Len())%26))
				}
			}
			b.WriteString("\r\n")
		}
		return b.Bytes()
	}
	switch r.Intn(5) {
	case 0:
		if len(spc.Parts) > 0 {
			i := r.Intn(len(spc.Parts))
			spc.Parts[i].Content = text([]int{4095, 4096, 4097, 32768, 65536, 70000, 150000, 300000}[r.Intn(8)])
			spc.Parts[i].chunks = nil
			return "large-part"
		}
		fallthrough
	case 1:
		n := []int{4096, 32767, 32768, 65537, 200000, 1 << 20}[r.Intn(6)]
		big := make([]byte, n)
		for j := range big {
			big[j] = byte(r.Intn(256))
		}
		if len(spc.Files) == 0 {
			spc.Files = append(spc.Files, FileSpec{Attach: true, Name: "big.bin"})
		}
		spc.Files[r.Intn(len(spc.Files))].Content = big
		return "large-file"
	case 2:
		n := 17 + r.Intn(30)
		for k := 0; k < n; k++ {
			spc.Files = append(spc.Files, FileSpec{Attach: k%3 != 0, Name: fmt.Sprintf("file-%03d.txt", k), Content: []byte(fmt.Sprintf("content of file %d\r\n", k))})
		}
		return "many-files"
	case 3:
		v := strings.Repeat("w", []int{998, 1000, 3000}[r.Intn(3)])
		if r.Bool() {
			var ws []string
			for k := 0; k < 300; k++ {
				ws = append(ws, fmt.Sprintf("word%d", k))
			}
			v = strings.Join(ws, " ")
		}
		spc.Gen = append(spc.Gen, GenOp{Key: "X-Custom", Values: []string{v}})
		return "long-header"
	default:
		a := AddrOp{Kind: 2, Mode: "set"}
		for k := 0; k < 70+r.Intn(80); k++ {
			a.Values = append(a.Values, fmt.Sprintf("Recipient Number %d <rcpt%03d@example.com>", k, k))
		}
		spc.Addr = append(spc.Addr, a)
		return "many-recipients"
	}
}
