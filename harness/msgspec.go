package main

import (
	"bytes"
	"errors"
	"fmt"
	"io"
	"mime"
	netmail "net/mail"
	"os"
	"path/filepath"
	"strings"
	texttemplate "text/template"

	mail "github.com/wneessen/go-mail"
)

// ---------------------------------------------------------------------------------------------
// A message specification: the builder calls that produce a Msg. The same spec is applied to the
// real mail.Msg through the public API and serialised as `msg` protocol operations for the model.

type PartSpec struct {
	CType   string  `json:"ctype"`
	Charset *string `json:"charset,omitempty"`
	Enc     *string `json:"enc,omitempty"`
	Desc    string  `json:"desc,omitempty"`
	Content []byte  `json:"content"`
	Fails   bool    `json:"fails,omitempty"`
	chunks  [][]byte
}

type FileSpec struct {
	Attach  bool    `json:"attach"`
	Name    string  `json:"name"`
	CType   string  `json:"ctype,omitempty"`
	Desc    string  `json:"desc,omitempty"`
	Enc     string  `json:"enc,omitempty"`
	CID     *string `json:"cid,omitempty"`
	Content []byte  `json:"content"`
	Fails   bool    `json:"fails,omitempty"`
	Source  string  `json:"source,omitempty"` // "" / reader | seeker | fs | iofs | tpl | flaky
	FlakyAt int     `json:"flaky_at,omitempty"` // source "flaky": a read-seeker whose first pass fails after this many bytes
}

// flakySeeker: an io.ReadSeeker over data whose first pass fails (once) after failAt bytes
type flakySeeker struct {
	data    []byte
	pos     int
	failAt  int
	tripped bool
}

var errFlaky = errors.New("transient read error")

func (f *flakySeeker) Read(p []byte) (int, error) {
	if f.pos >= len(f.data) {
		return 0, io.EOF
	}
	end := f.pos + len(p)
	if end > len(f.data) {
		end = len(f.data)
	}
	if !f.tripped && end > f.failAt {
		n := 0
		if f.failAt > f.pos {
			n = copy(p, f.data[f.pos:f.failAt])
		}
		f.pos += n
		f.tripped = true
		return n, errFlaky
	}
	n := copy(p, f.data[f.pos:end])
	f.pos += n
	return n, nil
}

func (f *flakySeeker) Seek(off int64, whence int) (int64, error) {
	switch whence {
	case io.SeekStart:
		f.pos = int(off)
	case io.SeekCurrent:
		f.pos += int(off)
	case io.SeekEnd:
		f.pos = len(f.data) + int(off)
	}
	if f.pos < 0 {
		f.pos = 0
	}
	return int64(f.pos), nil
}

type AddrOp struct {
	Kind   int      `json:"kind"` // 0 From 1 EnvelopeFrom 2 To 3 Cc 4 Bcc 5 Reply-To
	Mode   string   `json:"mode"` // set | ign | add
	Values []string `json:"values"`
}

type GenOp struct {
	Key    string   `json:"key"`
	Values []string `json:"values"`
	Pre    bool     `json:"pre,omitempty"`
}

type MsgSpec struct {
	Charset  string     `json:"charset,omitempty"`
	Encoding string     `json:"encoding,omitempty"`
	Boundary string     `json:"boundary,omitempty"`
	NoUA     bool       `json:"noua,omitempty"`
	Gen      []GenOp    `json:"gen,omitempty"`
	Addr     []AddrOp   `json:"addr,omitempty"`
	Parts    []PartSpec `json:"parts,omitempty"`
	Files    []FileSpec `json:"files,omitempty"`
	SMIME    string     `json:"smime,omitempty"` // "", "rsa", "ecdsa" (+"+ic" with intermediate)
}

var addrKinds = []mail.AddrHeader{mail.HeaderFrom, mail.HeaderEnvelopeFrom, mail.HeaderTo, mail.HeaderCc, mail.HeaderBcc, mail.HeaderReplyTo}

var errProducer = errors.New("producer failed")

// temporary directories created for file-system backed files; removed by cleanupTemp
var tempDirs []string

func cleanupTemp() {
	for _, d := range tempDirs {
		_ = os.RemoveAll(d)
	}
	tempDirs = nil
}

func producer(chunks [][]byte, fails bool) func(io.Writer) (int64, error) {
	return func(w io.Writer) (int64, error) {
		var total int64
		for _, c := range chunks {
			n, err := w.Write(c)
			total += int64(n)
			if err != nil {
				return total, err
			}
		}
		if fails {
			return total, errProducer
		}
		return total, nil
	}
}

// Build applies the spec to a fresh mail.Msg and returns it together with the protocol operations.
func (sp *MsgSpec) Build() (*mail.Msg, []string, error) {
	var ops []string
	var opts []mail.MsgOption
	if sp.Charset != "" {
		opts = append(opts, mail.WithCharset(mail.Charset(sp.Charset)))
		ops = append(ops, "charset", encS(sp.Charset))
	}
	if sp.Encoding != "" {
		opts = append(opts, mail.WithEncoding(mail.Encoding(sp.Encoding)))
		ops = append(ops, "encoding", encS(sp.Encoding))
	}
	if sp.Boundary != "" {
		opts = append(opts, mail.WithBoundary(sp.Boundary))
		ops = append(ops, "boundary", encS(sp.Boundary))
	}
	if sp.NoUA {
		opts = append(opts, mail.WithNoDefaultUserAgent())
		ops = append(ops, "noua")
	}
	m := mail.NewMsg(opts...)
	for _, g := range sp.Gen {
		if g.Pre {
			m.SetGenHeaderPreformatted(mail.Header(g.Key), g.Values[0])
			ops = append(ops, "pre", encS(g.Key), encS(g.Values[0]))
			continue
		}
		vals := append([]string(nil), g.Values...) // SetGenHeader encodes in place
		m.SetGenHeader(mail.Header(g.Key), vals...)
		ops = append(ops, "gen", encS(g.Key), encLS(g.Values))
	}
	for _, a := range sp.Addr {
		oks, strs, bares := parseAll(m, a)
		switch a.Mode {
		case "set":
			_ = m.SetAddrHeader(addrKinds[a.Kind], a.Values...)
			ops = append(ops, "addr", encN(a.Kind), encLS(oks), encLS(strs), encLS(bares))
		case "ign":
			m.SetAddrHeaderIgnoreInvalid(addrKinds[a.Kind], a.Values...)
			ops = append(ops, "addrign", encN(a.Kind), encLS(oks), encLS(strs), encLS(bares))
		case "add":
			// AddTo / AddCc / AddBcc are addAddr on the respective header
			var err error
			switch a.Kind {
			case 2:
				err = m.AddTo(a.Values[0])
			case 3:
				err = m.AddCc(a.Values[0])
			case 4:
				err = m.AddBcc(a.Values[0])
			default:
				return nil, nil, fmt.Errorf("add on kind %d", a.Kind)
			}
			_ = err
			ops = append(ops, "addradd", encN(a.Kind), encLS(oks), encLS(strs), encLS(bares))
		}
	}
	for i := range sp.Parts {
		p := &sp.Parts[i]
		var po []mail.PartOption
		cs, en := "-", "-"
		if p.Charset != nil {
			po = append(po, mail.WithPartCharset(mail.Charset(*p.Charset)))
			cs = encS(*p.Charset)
		}
		if p.Enc != nil {
			po = append(po, mail.WithPartEncoding(mail.Encoding(*p.Enc)))
			en = encS(*p.Enc)
		}
		if p.Desc != "" {
			po = append(po, mail.WithPartContentDescription(p.Desc))
		}
		chunks := p.chunks
		if chunks == nil {
			chunks = [][]byte{p.Content}
		}
		op := "alt"
		if i == 0 {
			m.SetBodyWriter(mail.ContentType(p.CType), producer(chunks, p.Fails), po...)
			op = "body"
		} else {
			m.AddAlternativeWriter(mail.ContentType(p.CType), producer(chunks, p.Fails), po...)
		}
		ops = append(ops, op, encS(p.CType), cs, en, encS(p.Desc), encB(p.Content), encBool(p.Fails))
	}
	for i := range sp.Files {
		f := &sp.Files[i]
		var fo []mail.FileOption
		if f.CType != "" {
			fo = append(fo, mail.WithFileContentType(mail.ContentType(f.CType)))
		}
		if f.Desc != "" {
			fo = append(fo, mail.WithFileDescription(f.Desc))
		}
		if f.Enc != "" {
			fo = append(fo, mail.WithFileEncoding(mail.Encoding(f.Enc)))
		}
		cid := "-"
		if f.CID != nil {
			fo = append(fo, mail.WithFileContentID(*f.CID))
			cid = encS(*f.CID)
		}
		var err error
		switch f.Source {
		case "flaky":
			src := &flakySeeker{data: f.Content, failAt: f.FlakyAt}
			if f.Attach {
				m.AttachReadSeeker(f.Name, src, fo...)
			} else {
				m.EmbedReadSeeker(f.Name, src, fo...)
			}
		case "seeker":
			if f.Attach {
				m.AttachReadSeeker(f.Name, bytes.NewReader(f.Content), fo...)
			} else {
				m.EmbedReadSeeker(f.Name, bytes.NewReader(f.Content), fo...)
			}
		case "fs", "iofs":
			dir, derr := os.MkdirTemp("", "gmverif-files-")
			if derr != nil {
				return nil, nil, derr
			}
			tempDirs = append(tempDirs, dir)
			base := "file" + filepath.Ext(f.Name)
			if werr := os.WriteFile(filepath.Join(dir, base), f.Content, 0o600); werr != nil {
				return nil, nil, werr
			}
			fo = append(fo, mail.WithFileName(f.Name))
			if f.Source == "fs" {
				if f.Attach {
					m.AttachFile(filepath.Join(dir, base), fo...)
				} else {
					m.EmbedFile(filepath.Join(dir, base), fo...)
				}
			} else {
				if f.Attach {
					err = m.AttachFromIOFS(base, os.DirFS(dir), fo...)
				} else {
					err = m.EmbedFromIOFS(base, os.DirFS(dir), fo...)
				}
			}
		case "tpl":
			tpl, terr := texttemplate.New("t").Parse("{{.}}")
			if terr != nil {
				return nil, nil, terr
			}
			if f.Attach {
				err = m.AttachTextTemplate(f.Name, tpl, string(f.Content), fo...)
			} else {
				err = m.EmbedTextTemplate(f.Name, tpl, string(f.Content), fo...)
			}
		default:
			if f.Attach {
				err = m.AttachReader(f.Name, bytes.NewReader(f.Content), fo...)
			} else {
				err = m.EmbedReader(f.Name, bytes.NewReader(f.Content), fo...)
			}
		}
		if err != nil {
			return nil, nil, err
		}
		if f.Fails {
			var fl *mail.File
			if f.Attach {
				l := m.GetAttachments()
				fl = l[len(l)-1]
			} else {
				l := m.GetEmbeds()
				fl = l[len(l)-1]
			}
			fl.Writer = producer([][]byte{f.Content}, true)
		}
		tbe := mime.TypeByExtension(filepath.Ext(f.Name))
		modelEnc := f.Enc
		if modelEnc == "quoted-printable" {
			modelEnc = "" // WithFileEncoding ignores quoted-printable
		}
		if f.Source == "flaky" {
			// until the source has failed once, the producer writes the first FlakyAt bytes and fails
			ops = append(ops, "file", encBool(f.Attach), encS(f.Name), encS(f.CType), encS(f.Desc), encS(modelEnc), cid, encS(tbe), encB(f.Content[:f.FlakyAt]), encBool(true))
			continue
		}
		ops = append(ops, "file", encBool(f.Attach), encS(f.Name), encS(f.CType), encS(f.Desc), encS(modelEnc), cid, encS(tbe), encB(f.Content), encBool(f.Fails))
	}
	if sp.SMIME != "" {
		if err := signWith(m, sp.SMIME); err != nil {
			return nil, nil, err
		}
		ops = append(ops, "smime")
	}
	return m, ops, nil
}

// parseAll computes what net/mail.ParseAddress makes of every value of an address operation
// (the model takes these results as parameters)
func parseAll(m *mail.Msg, a AddrOp) (oks, strs, bares []string) {
	for _, v := range a.Values {
		in := v
		if a.Mode == "ign" {
			in = mail.VerifEncodeString(m, v)
		}
		ad, err := netmail.ParseAddress(in)
		if err != nil {
			oks = append(oks, "0")
			strs = append(strs, "")
			bares = append(bares, "")
			continue
		}
		oks = append(oks, "1")
		strs = append(strs, mail.VerifAddressString(ad))
		bares = append(bares, ad.Address)
	}
	return
}

// limitedWriter accepts `limit` bytes and then fails every non-empty write (short write first)
type limitedWriter struct {
	buf   bytes.Buffer
	limit int // <0: unlimited
}

func (w *limitedWriter) Write(p []byte) (int, error) {
	if w.limit < 0 || w.buf.Len()+len(p) <= w.limit {
		w.buf.Write(p)
		return len(p), nil
	}
	room := w.limit - w.buf.Len()
	w.buf.Write(p[:room])
	return room, errors.New("destination full")
}

type renderResult struct {
	out    []byte
	n      int64
	err    error
	panic  interface{}
	line   string // the protocol op for this render (writeto ...)
	signed []byte
}

// renderOnce runs Msg.WriteTo against a destination with the given limit and produces the matching
// `writeto` operation (entropy read back from the message and its output).
func renderOnce(m *mail.Msg, limit int) (res renderResult) {
	w := &limitedWriter{limit: limit}
	func() {
		defer func() {
			if r := recover(); r != nil {
				res.panic = r
			}
		}()
		res.n, res.err = m.WriteTo(w)
	}()
	res.out = w.buf.Bytes()
	date, msgid := "", ""
	if v := m.GetGenHeader(mail.HeaderDate); len(v) > 0 {
		date = v[0]
	}
	if v := m.GetGenHeader(mail.HeaderMessageID); len(v) > 0 {
		msgid = v[0]
	}
	bm, br, ba := mail.VerifBoundaries(m)
	bs, sig := "", []byte(nil)
	if i := bytes.Index(res.out, []byte("Content-Type: multipart/signed;")); i >= 0 {
		rest := res.out[i:]
		if j := bytes.Index(rest, []byte("boundary=")); j >= 0 {
			rest = rest[j+9:]
			if k := bytes.Index(rest, []byte("\r\n")); k >= 0 {
				bs = string(rest[:k])
			} else {
				bs = string(rest)
			}
		}
	}
	if parts := m.GetParts(); len(parts) > 0 {
		last := parts[len(parts)-1]
		if strings.HasPrefix(string(last.GetContentType()), "application/pkcs7-signature") {
			sig, _ = last.GetContent()
		}
	}
	lim := "-"
	if limit >= 0 {
		lim = encN(limit)
	}
	res.line = strings.Join([]string{"writeto", encS(date), encS(msgid), encS(bm), encS(br), encS(ba), encS(bs), encB(sig), lim}, " ")
	return
}

func (r renderResult) want() string {
	return encB(r.out) + " " + encN(int(r.n)) + " " + encBool(r.err != nil)
}

// ---------------------------------------------------------------------------------------------
// spec generator

var ctypes = []string{"text/plain", "text/html", "text/plain", "text/html", "text/x-custom"}
var charsets = []string{"UTF-8", "ISO-8859-1", "utf-8", "US-ASCII"}
var fileNames = []string{"file.txt", "image.png", "doc.pdf", "no-extension", "with space.txt", "ümlaut.txt", "a;b=c.txt", "q\"uote.bin", "path/evil.txt",
	"a-very-long-file-name-that-goes-on-and-on-and-on-for-more-than-fifty-characters.dat", "tab\tname.txt", "ctrl\r\nname.txt", "日本語.txt", ".hidden", "x.UNKNOWNEXT",
	"Квартальный отчёт за 2024 год.pdf", "Übersichtsgrafik der Jahresabschlussprüfung für Österreich.png", "非常に長い日本語のファイル名の例ですよ.txt",
	"a long, mostly ASCII file name with one ümlaut that needs more than one encoded-word.txt"}
var genKeys = []string{"Subject", "Organization", "X-Custom", "In-Reply-To", "References", "Importance", "X-Priority", "List-Unsubscribe", "Precedence"}
var goodAddrs = []string{"alice@example.com", "Bob <bob@example.org>", "\"Last, First\" <lf@example.net>", "Jürgen Müller <jm@example.de>", "\"quoted local\"@example.com",
	"<carol@example.com>", "dave+tag@sub.example.co.uk", "\"a b>c\"@example.com", "Eve (comment) <eve@example.com>", "=?UTF-8?q?Enc?= <enc@example.com>",
	"\"Very Long Display Name That Goes On And On And On For Quite A While Indeed\" <long@example.com>",
	"\"Zoë \\\\ Backslash\" <zoe@example.com>", "\"Quote \\\" and \\\\ in ASCII\" <q@example.com>", "\"名前 \\\\\" <cjk@example.com>"}
var badAddrs = []string{"invalid", "", "@", "a@", "two@@example.com", "x y z", "<>", "a@b@c"}

func sp(s string) *string { return &s }

func genAddrValue(r *Rng) string {
	if r.Chance(12) {
		return badAddrs[r.Intn(len(badAddrs))]
	}
	if r.Chance(15) {
		// display name from the adversarial text generator
		return fmt.Sprintf("%q <user%d@example.com>", genText(r, 4), r.Intn(100))
	}
	return goodAddrs[r.Intn(len(goodAddrs))]
}

type genOpts struct {
	maxParts, maxFiles int
	textHeavy          bool // adversarial header text
	encodings          []string
	noFails            bool
	smallContent       bool
}

func genSpec(r *Rng, o genOpts) *MsgSpec {
	spc := &MsgSpec{}
	if r.Chance(25) {
		spc.Charset = charsets[r.Intn(len(charsets))]
	}
	encs := o.encodings
	if encs == nil {
		encs = []string{"quoted-printable", "base64", "8bit"}
	}
	if r.Chance(50) {
		spc.Encoding = encs[r.Intn(len(encs))]
	}
	if r.Chance(10) {
		spc.Boundary = []string{"user-boundary-123", "b", "with space inside", "invalid_end ", "bad\"char"}[r.Intn(5)]
	}
	spc.NoUA = r.Chance(15)
	// generic headers
	ng := r.Intn(4)
	for i := 0; i < ng; i++ {
		g := GenOp{Key: genKeys[r.Intn(len(genKeys))]}
		nv := 1
		if r.Chance(15) {
			nv = r.Intn(3)
		}
		for j := 0; j < nv; j++ {
			if r.Chance(12) {
				g.Values = append(g.Values, genFoldEdge(r))
			} else if o.textHeavy || r.Chance(40) {
				g.Values = append(g.Values, genText(r, 8))
			} else {
				g.Values = append(g.Values, genHeaderValue(r))
			}
		}
		spc.Gen = append(spc.Gen, g)
	}
	if r.Chance(10) {
		spc.Gen = append(spc.Gen, GenOp{Key: "X-Preformatted", Values: []string{"line one\r\n line two"}, Pre: true})
		if r.Chance(50) {
			spc.Gen = append(spc.Gen, GenOp{Key: "X-Another-Pre", Values: []string{"v"}, Pre: true})
		}
	}
	// addresses
	na := 1 + r.Intn(5)
	for i := 0; i < na; i++ {
		a := AddrOp{Kind: r.Intn(6)}
		if i == 0 {
			a.Kind = 0
		} else if i == 1 {
			a.Kind = 2
		}
		switch r.Intn(5) {
		case 0:
			a.Mode = "ign"
		case 1:
			if a.Kind >= 2 && a.Kind <= 4 {
				a.Mode = "add"
			} else {
				a.Mode = "set"
			}
		default:
			a.Mode = "set"
		}
		nv := 1 + r.Intn(3)
		if a.Mode == "add" || a.Kind == 5 || a.Kind == 1 {
			nv = 1
		}
		if r.Chance(5) && a.Mode != "add" {
			nv = 0
		}
		for j := 0; j < nv; j++ {
			a.Values = append(a.Values, genAddrValue(r))
		}
		spc.Addr = append(spc.Addr, a)
	}
	// parts
	np := 1
	switch {
	case r.Chance(8):
		np = 0
	case r.Chance(40):
		np = 2 + r.Intn(max(1, o.maxParts-1))
	}
	if np > o.maxParts {
		np = o.maxParts
	}
	clen := 300
	if o.smallContent {
		clen = 40
	}
	for i := 0; i < np; i++ {
		p := PartSpec{CType: ctypes[r.Intn(len(ctypes))], Content: genBody(r, genLen(r, clen))}
		if r.Chance(20) {
			p.Charset = sp(charsets[r.Intn(len(charsets))])
		}
		if r.Chance(40) {
			p.Enc = sp(encs[r.Intn(len(encs))])
		}
		if r.Chance(20) {
			if r.Chance(10) {
				p.Desc = genFoldEdge(r)
			} else if o.textHeavy || r.Chance(50) {
				p.Desc = genText(r, 6)
			} else {
				p.Desc = "A part description"
			}
		}
		p.chunks = genChunks(r, p.Content)
		if !o.noFails && r.Chance(4) {
			p.Fails = true
		}
		spc.Parts = append(spc.Parts, p)
	}
	// files
	nf := 0
	if r.Chance(60) {
		nf = 1 + r.Intn(o.maxFiles)
	}
	for i := 0; i < nf; i++ {
		f := FileSpec{Attach: r.Bool(), Name: fileNames[r.Intn(len(fileNames))], Content: genBody(r, genLen(r, clen))}
		if o.textHeavy && r.Chance(50) {
			f.Name = genText(r, 5)
		}
		if r.Chance(20) {
			f.CType = []string{"application/x-custom", "text/csv", "image/jpeg"}[r.Intn(3)]
		}
		if r.Chance(25) {
			if o.textHeavy || r.Chance(50) {
				f.Desc = genText(r, 6)
			} else {
				f.Desc = "A file description"
			}
		}
		if r.Chance(30) {
			f.Enc = []string{"base64", "8bit", "quoted-printable"}[r.Intn(3)]
		}
		if r.Chance(20) {
			if o.textHeavy || r.Chance(50) {
				f.CID = sp(genText(r, 4))
			} else {
				f.CID = sp("cid-" + fmt.Sprint(r.Intn(100)) + "@example.com")
			}
		}
		if !o.noFails && r.Chance(4) {
			f.Fails = true
		}
		spc.Files = append(spc.Files, f)
	}
	return spc
}

func max(a, b int) int {
	if a > b {
		return a
	}
	return b
}

func (sp *MsgSpec) shape() string {
	ne, na := 0, 0
	for _, f := range sp.Files {
		if f.Attach {
			na++
		} else {
			ne++
		}
	}
	return fmt.Sprintf("p%d-e%d-a%d", min(len(sp.Parts), 3), min(ne, 2), min(na, 2))
}
