package main

import (
	"bytes"
	"fmt"
	"os"
	"strings"
)

func defaultHelo() string {
	h, err := os.Hostname()
	if err != nil {
		return "localhost"
	}
	return h
}

// ---------------------------------------------------------------------------------------------
// Strict RFC 5321 §4.1.4 judge over the recorded dialogue (Postfix-like strictness), in Go.
// Independent of the Lean reference automaton; both look at the same transcript.

type smtpJudge struct {
	greeted   bool
	hello     bool
	ext       map[string]bool
	state     string // idle | mail | rcpt | data
	accepted  int
	rejected  int
	lastVerb  string
	closed    bool
	problems  []string
}

func upperVerb(line string) string { return verbOf(line) }

func (j *smtpJudge) problem(format string, args ...interface{}) {
	j.problems = append(j.problems, fmt.Sprintf(format, args...))
}

// judgeDialogue walks the event list. eightBit[i] tells whether the i-th MAIL command belongs to an 8bit message.
func judgeDialogue(evs []Event) []string {
	j := &smtpJudge{state: "idle", ext: map[string]bool{}}
	pending := "" // verb awaiting its reply
	pendingLine := ""
	for _, e := range evs {
		switch e.Kind {
		case "connect":
			pending = "greeting"
		case "unread":
			j.problem("command %q sent while %q of the previous reply was still unread (out of step)", e.Line, e.Data)
		case "cmd":
			if j.closed {
				j.problem("command %q after the connection was closed by the server", e.Line)
			}
			if pending != "" && pending != "greeting" {
				j.problem("command %q sent before the reply to %s was read (out of step)", e.Line, pending)
			}
			if !j.greeted {
				j.problem("command %q sent before the greeting", e.Line)
			}
			if strings.ContainsAny(e.Line, "\r\n") {
				j.problem("command line contains CR or LF: %q", e.Line)
			}
			v := upperVerb(e.Line)
			switch v {
			case "EHLO", "HELO":
			case "MAIL":
				if !j.hello {
					j.problem("MAIL before a successful EHLO/HELO")
				}
				if j.state != "idle" {
					j.problem("MAIL inside an open transaction (state %s)", j.state)
				}
				up := strings.ToUpper(e.Line)
				if strings.Contains(up, " BODY=8BITMIME") && !j.ext["8BITMIME"] {
					j.problem("BODY=8BITMIME without the 8BITMIME extension")
				}
				if strings.Contains(up, " SMTPUTF8") && !j.ext["SMTPUTF8"] {
					j.problem("SMTPUTF8 parameter without the extension")
				}
				if strings.Contains(up, " RET=") && !j.ext["DSN"] {
					j.problem("RET parameter without the DSN extension")
				}
			case "RCPT":
				if j.state != "mail" && j.state != "rcpt" {
					j.problem("RCPT without an accepted MAIL (state %s)", j.state)
				}
				if strings.Contains(strings.ToUpper(e.Line), " NOTIFY=") && !j.ext["DSN"] {
					j.problem("NOTIFY parameter without the DSN extension")
				}
			case "DATA":
				if j.state != "rcpt" || j.accepted == 0 {
					j.problem("DATA without an accepted recipient (state %s)", j.state)
				}
				if j.rejected > 0 {
					j.problem("DATA although %d recipient(s) of the message were rejected", j.rejected)
				}
			case "RSET", "NOOP", "QUIT":
			case "STARTTLS":
				if j.state != "idle" {
					j.problem("STARTTLS inside a transaction")
				}
			case "AUTH":
				if j.state != "idle" {
					j.problem("AUTH inside a transaction")
				}
			case "auth-abort":
			default:
				if j.lastVerb != "AUTH" && j.lastVerb != "auth-step" {
					j.problem("unknown command %q", e.Line)
				}
			}
			pending = v
			pendingLine = e.Line
			if v == "?" && (j.lastVerb == "AUTH" || j.lastVerb == "auth-step") {
				pending = "auth-step"
			}
			j.lastVerb = pending
		case "eod":
			if j.state != "data" {
				j.problem("end-of-data outside DATA")
			}
			pending = "eod"
		case "reply":
			code := e.Code
			ok2 := code >= 200 && code < 300
			switch pending {
			case "greeting":
				j.greeted = code == 220
			case "EHLO":
				if ok2 {
					j.hello = true
					j.state = "idle"
					j.ext = map[string]bool{}
					lines := strings.Split(e.Line, "\n")
					for _, l := range lines[1:] {
						k := strings.ToUpper(strings.SplitN(l, " ", 2)[0])
						j.ext[k] = true
					}
				}
			case "HELO":
				if ok2 {
					j.hello = true
					j.state = "idle"
					j.ext = map[string]bool{}
				}
			case "MAIL":
				if ok2 {
					j.state = "mail"
					j.accepted, j.rejected = 0, 0
				}
			case "RCPT":
				if ok2 {
					j.state = "rcpt"
					j.accepted++
				} else {
					j.rejected++
				}
			case "DATA":
				if code == 354 {
					j.state = "data"
				}
			case "eod":
				j.state = "idle"
			case "RSET":
				if ok2 {
					j.state = "idle"
				}
			case "QUIT":
				if code == 221 {
					j.closed = true
				}
			}
			_ = pendingLine
			pending = ""
		case "drop":
			j.closed = true
			pending = ""
		case "close":
			return j.problems
		}
	}
	return j.problems
}

// ---------------------------------------------------------------------------------------------
// C03: what the server committed vs. what Send reported

func oracleCommit(c *Ctx, sc *SmtpScenario, run *SmtpRun) {
	c.rep.OracleChecked++
	// eod replies in order, and the payloads in order
	type eodRec struct {
		payload []byte
		code    int
	}
	var eods []eodRec
	var cur *eodRec
	for _, e := range run.Events {
		switch e.Kind {
		case "eod":
			eods = append(eods, eodRec{payload: e.Data})
			cur = &eods[len(eods)-1]
		case "reply":
			if cur != nil && cur.code == 0 {
				cur.code = e.Code
				cur = nil
			}
		case "drop", "garbage":
			cur = nil
		}
	}
	used := map[int]int{}
	for k, rec := range eods {
		// every payload that reached end-of-data must be one complete rendering
		owner := -1
		for i, m := range run.Msgs {
			if m.Rendering == nil {
				continue
			}
			if !bytes.Contains(rec.payload, []byte(fmt.Sprintf("Subject: verif message %d\r\n", i))) {
				continue
			}
			if hasBareCR(m.Rendering) {
				// 8bit content with bare CR: outside the property's input space (text with CRLF/LF line breaks)
				c.rep.Branches["oracle-skip:bare-cr-8bit"]++
				owner = i
				continue
			}
			// the dot-writer turns bare LF into CRLF and terminates an unterminated last line
			want := canonCRLF(m.Rendering)
			if !bytes.HasSuffix(want, []byte("\r\n")) {
				want = append(want, '\r', '\n')
			}
			if bytes.Equal(want, rec.payload) {
				owner = i
			}
		}
		committed := rec.code >= 200 && rec.code < 300
		if owner < 0 {
			if committed {
				c.Violate("c03-fragment-committed", fmt.Sprintf("the server accepted a payload (%d bytes) that is not the complete rendering of any message of the batch", len(rec.payload)), sc)
			} else {
				c.Violate("c03-fragment-offered", fmt.Sprintf("end-of-data was sent after a payload (%d bytes) that is not a complete rendering", len(rec.payload)), sc)
			}
			continue
		}
		if committed {
			used[owner]++
			if used[owner] > 1 {
				c.Violate("c03-committed-twice", fmt.Sprintf("message %d was committed twice in one call", owner), sc)
			}
		}
		_ = k
	}
	for i, m := range run.Msgs {
		if i < len(run.WarmDelivered) && run.WarmDelivered[i] && used[i] == 0 {
			// acknowledged in the earlier call (a retry of a delivered message that now fails): IsDelivered stays true
			continue
		}
		if m.Delivered != (used[i] > 0) {
			c.Violate("c03-isdelivered", fmt.Sprintf("message %d: IsDelivered()=%v but the server acknowledged its end-of-data %d time(s)", i, m.Delivered, used[i]), sc)
		}
		if sc.Msgs[i].RenderFail && (m.Delivered || !m.HasErr) && run.Stage != "dial" && run.CheckErr == nil {
			c.Violate("c03-failed-render-reported-ok", fmt.Sprintf("message %d: rendering failed but delivered=%v hasSendError=%v", i, m.Delivered, m.HasErr), sc)
		}
	}
}

// ---------------------------------------------------------------------------------------------
// C19: the connection is closed whenever the call returns an error, and after success

func oracleClosed(c *Ctx, sc interface{}, run *SmtpRun, connected bool) {
	c.rep.OracleChecked++
	if !connected {
		return
	}
	if run.Open {
		if run.Err != nil {
			c.Violate("c19-open-after-error", fmt.Sprintf("the call returned an error (%s stage: %v) but the connection was not closed", run.Stage, run.Err), sc)
		} else {
			c.Violate("c19-open-after-success", "DialAndSend succeeded but the connection is still open", sc)
		}
	}
	if run.Err == nil {
		quit := false
		for _, e := range run.Events {
			if e.Kind == "cmd" && strings.ToUpper(e.Line) == "QUIT" {
				quit = true
			}
		}
		if !quit {
			c.Violate("c19-no-quit", "DialAndSend succeeded without sending QUIT", sc)
		}
	}
}

// C17: every wait on a silent server had a deadline
func oracleStalls(c *Ctx, sc interface{}, run *SmtpRun) {
	c.rep.OracleChecked++
	for _, e := range run.Events {
		if e.Kind == "stall-unarmed" {
			c.Violate("c17-blocks-forever", "the client waited for the server without any deadline armed", sc)
			return
		}
	}
}

// ---------------------------------------------------------------------------------------------
// C20: SendError vs. the replies the server actually sent

type msgDialogue struct {
	step  []string // MAIL RCPT DATA eod RSET NOOP ...
	code  []int    // reply code (0 = none: drop / stall)
	text  []string
	rcpt  []string // recipient for RCPT steps
}

// splitPerMessage attributes commands to messages: a MAIL opens the next message, everything up to
// the next MAIL (or the end) belongs to it
func splitPerMessage(evs []Event) []msgDialogue {
	var out []msgDialogue
	var cur *msgDialogue
	pending := -1
	for _, e := range evs {
		switch e.Kind {
		case "cmd":
			v := upperVerb(e.Line)
			if v == "MAIL" {
				out = append(out, msgDialogue{})
				cur = &out[len(out)-1]
			}
			if cur == nil || v == "QUIT" || v == "EHLO" || v == "HELO" {
				pending = -1
				if v == "QUIT" {
					cur = nil
				}
				continue
			}
			cur.step = append(cur.step, v)
			cur.code = append(cur.code, 0)
			cur.text = append(cur.text, "")
			r := ""
			if v == "RCPT" {
				if i := strings.Index(e.Line, "<"); i >= 0 {
					if j := strings.LastIndex(e.Line, ">"); j > i {
						r = e.Line[i+1 : j]
					}
				}
			}
			cur.rcpt = append(cur.rcpt, r)
			pending = len(cur.step) - 1
		case "eod":
			if cur != nil {
				cur.step = append(cur.step, "eod")
				cur.code = append(cur.code, 0)
				cur.text = append(cur.text, "")
				cur.rcpt = append(cur.rcpt, "")
				pending = len(cur.step) - 1
			}
		case "reply":
			if cur != nil && pending >= 0 {
				cur.code[pending] = e.Code
				cur.text[pending] = e.Line
				pending = -1
			}
		}
	}
	return out
}

var escSupportedKey = "ENHANCEDSTATUSCODES"

// advertisedExt: the extension set of the latest successful EHLO as the server actually sent it
// (nil after a HELO fallback or when no EHLO succeeded)
func advertisedExt(evs []Event) map[string]bool {
	var ext map[string]bool
	pending := ""
	for _, e := range evs {
		switch e.Kind {
		case "cmd":
			pending = upperVerb(e.Line)
		case "reply":
			if pending == "EHLO" && e.Code == 250 {
				ext = map[string]bool{}
				for _, l := range strings.Split(e.Line, "\n")[1:] {
					ext[strings.SplitN(l, " ", 2)[0]] = true
				}
			}
			if pending == "HELO" && e.Code == 250 {
				ext = nil
			}
			pending = ""
		}
	}
	return ext
}

func escOf(text string) string {
	// first token of the first line, class.subject.detail
	first := strings.SplitN(text, "\n", 2)[0]
	tok := strings.SplitN(first, " ", 2)[0]
	parts := strings.Split(tok, ".")
	if len(parts) != 3 {
		return ""
	}
	if parts[0] != "2" && parts[0] != "4" && parts[0] != "5" {
		return ""
	}
	for _, p := range parts[1:] {
		if len(p) < 1 || len(p) > 3 {
			return ""
		}
		for _, ch := range p {
			if ch < '0' || ch > '9' {
				return ""
			}
		}
	}
	return tok
}

func oracleSendError(c *Ctx, sc *SmtpScenario, run *SmtpRun) {
	c.rep.OracleChecked++
	for _, p := range run.APIProblems {
		c.Violate("c20-accessor", p, sc)
	}
	if run.Stage == "dial" || run.CheckErr != nil || run.Panic != nil {
		return
	}
	adv := advertisedExt(run.Events)
	escAdvertised := adv[escSupportedKey]
	dialogues := splitPerMessage(run.Events)
	di := 0
	failedMsgs := 0
	for i, m := range run.Msgs {
		sm := sc.Msgs[i]
		in := map[string]interface{}{"scenario": sc, "message": i}
		if m.HasErr {
			failedMsgs++
		}
		// messages refused locally never reach the wire
		localRefusal := (sm.From == "" && sm.EnvFrom == "") || len(m.AllRcpts) == 0
		if sm.EightBit && !adv["8BITMIME"] {
			localRefusal = true
		}
		if localRefusal {
			if !m.HasErr {
				c.Violate("c20-local-refusal-no-error", fmt.Sprintf("message %d cannot be sent (no sender / recipients / 8BITMIME) but carries no error", i), in)
			}
			continue
		}
		if di >= len(dialogues) {
			// the connection died before this message: it must carry an error
			if !m.HasErr {
				c.Violate("c20-unsent-no-error", fmt.Sprintf("message %d never reached the server but carries no error", i), in)
			}
			continue
		}
		d := dialogues[di]
		di++
		// find the first failing step
		want := -1 // reason
		wantCode, wantText := 0, ""
		var wantRcpts []string
		anyRcptFail := false
		for k, st := range d.step {
			code := d.code[k]
			if strings.HasSuffix(d.text[k], outOfSequence) && m.HasErr {
				// no failing reply of the script concerned this message: the server refused a command of it that is out of
				// sequence because of what the client did (or did not do) after ANOTHER message failed
				c.Violate("c20-error-on-unaffected", fmt.Sprintf("message %d carries an error because its %s was out of sequence for the server (%d %s): the failure of another message was carried over", i, st, code, d.text[k]), in)
			}
			switch st {
			case "MAIL":
				if code != 250 && want < 0 {
					want, wantCode, wantText = 2, code, d.text[k]
				}
			case "RCPT":
				if want < 0 || want == 3 {
					if code/10 != 25 {
						want, wantCode, wantText = 3, code, d.text[k]
						anyRcptFail = true
						wantRcpts = append(wantRcpts, d.rcpt[k])
					}
				}
			case "DATA":
				if code != 354 && want < 0 {
					want, wantCode, wantText = 4, code, d.text[k]
				}
			case "eod":
				if code != 250 && want < 0 {
					want, wantCode, wantText = 5, code, d.text[k]
				}
			case "NOOP":
				// NOOP of the connection check after end-of-data
				if want < 0 && code != 250 && k > 0 {
					want, wantCode, wantText = 6, 0, "" // ErrNoActiveConnection: no code
				}
			case "RSET":
				if want < 0 && code != 250 {
					want, wantCode, wantText = 6, code, d.text[k]
				}
			}
			if want >= 0 && want != 3 {
				break
			}
		}
		_ = anyRcptFail
		if sm.RenderFail && want < 0 {
			want, wantCode, wantText = 7, 0, ""
		}
		if want < 0 {
			if m.HasErr {
				c.Violate("c20-error-on-unaffected", fmt.Sprintf("message %d was not affected by any failing reply but carries SendError reason %d", i, m.Reason), in)
			}
			continue
		}
		if !m.HasErr {
			c.Violate("c20-missing-error", fmt.Sprintf("message %d: step failed (expected reason %d, code %d) but no SendError", i, want, wantCode), in)
			continue
		}
		if m.Reason != want {
			c.Violate("c20-reason", fmt.Sprintf("message %d: SendError names step %d, the failing step is %d", i, m.Reason, want), in)
			continue
		}
		if wantCode >= 400 && wantCode <= 599 {
			if m.Code != wantCode {
				c.Violate("c20-code", fmt.Sprintf("message %d: ErrorCode()=%d, the server replied %d", i, m.Code, wantCode), in)
			}
			if m.Temp != (wantCode/100 == 4) {
				c.Violate("c20-temp", fmt.Sprintf("message %d: IsTemp()=%v for reply %d", i, m.Temp, wantCode), in)
			}
			wantESC := ""
			if escAdvertised {
				wantESC = escOf(wantText)
			}
			if m.ESC != wantESC {
				c.Violate("c20-esc", fmt.Sprintf("message %d: EnhancedStatusCode()=%q, expected %q (advertised=%v, reply text %q)", i, m.ESC, wantESC, escAdvertised, wantText), in)
			}
		}
		noReply := false
		for k := range d.step {
			if d.code[k] <= 0 {
				noReply = true // drop / garbage / stall inside this message: later commands never reached the server
			}
		}
		if want == 3 && !noReply {
			got := append([]string(nil), m.Rcpts...)
			// the envelope form of a recipient may be quoted; compare on the unquoted addresses the caller used
			if len(got) != len(wantRcpts) {
				c.Violate("c20-rcpts", fmt.Sprintf("message %d: SendError lists %v, the server rejected %v", i, got, wantRcpts), in)
			}
		}
	}
	// joined error: one entry per failed message
	if run.Stage == "send" {
		type unwrapper interface{ Unwrap() []error }
		inner := run.Err
		for k := 0; k < 3; k++ {
			if u, ok := inner.(interface{ Unwrap() error }); ok {
				inner = u.Unwrap()
			}
		}
		if u, ok := inner.(unwrapper); ok {
			if n := len(u.Unwrap()); n != failedMsgs {
				c.Violate("c20-joined", fmt.Sprintf("the joined error has %d entries, %d message(s) failed", n, failedMsgs), sc)
			}
		}
	} else if run.Stage == "" && failedMsgs > 0 {
		c.Violate("c20-joined", fmt.Sprintf("%d message(s) carry an error but the call returned nil", failedMsgs), sc)
	}
}


// oracleWaits (C17): how many times ONE public call waited a full timeout. In the virtual time of the scripted
// peer a read on a silent server returns at once; it stands for a wait of the whole timeout when the deadline had
// been armed afresh since the previous wait (an expired deadline that nobody re-armed makes every further
// operation fail immediately). A call that waits twice returns after twice the configured timeout.
func oracleWaits(c *Ctx, sc *SmtpScenario, run *SmtpRun) {
	c.rep.OracleChecked++
	call, waits, fresh := "", 0, true
	firstAt := "" // where the first wait of the call happened
	last := ""    // the last thing the client did before a wait
	var tail []string
	flush := func() {
		if call == "" || waits < 2 {
			return
		}
		if strings.HasPrefix(call, "DialAndSend") && waits == 2 && (firstAt == "NOOP" || firstAt == "RSET" || firstAt == "eod") {
			// known finding: the send runs into the timeout at the connection check, at end-of-data or at the RSET
			// after a message, the connection stays usable in the client's eyes, and the deferred close arms a new
			// deadline for its QUIT and waits once more
			c.Violate("c17-dialandsend-twice-the-timeout", fmt.Sprintf("%s waited twice a full timeout: the server fell silent at %s, then the QUIT of the deferred close waited again (the call returns after 2 x the configured timeout)", call, firstAt), sc)
			return
		}
		c.Violate("c17-more-than-one-timeout", fmt.Sprintf("%s waited %d times a full timeout on the silent server (first at %s; the deadline was armed afresh before each wait): it returns after %d times the configured timeout; dialogue: %v", call, waits, firstAt, waits, tail), sc)
	}
	for _, e := range run.Events {
		if e.Kind == "cmd" {
			tail = append(tail, verbOf(e.Line))
		} else if e.Kind == "deadline" || e.Kind == "stall-armed" || e.Kind == "close" || e.Kind == "eod" {
			tail = append(tail, e.Kind)
		}
		if len(tail) > 14 {
			tail = tail[1:]
		}
		switch e.Kind {
		case "api":
			flush()
			call, waits, firstAt = e.Line, 0, ""
		case "cmd":
			last = verbOf(e.Line)
		case "eod":
			last = "eod"
		case "deadline":
			fresh = true
		case "stall-armed":
			if fresh {
				waits++
				if waits == 1 {
					firstAt = last
				}
			}
			fresh = false
		}
	}
	flush()
}
