package main

import (
	"fmt"
	"strings"
	"time"
)

// ---------------------------------------------------------------------------------------------
// E3 suites: the send path of the real client against scripted servers, compared with the Lean
// session model event by event, and judged by the Go oracles (C03 C04 C17 C19 C20).

var capPool = []string{"8BITMIME", "SMTPUTF8", "DSN", "ENHANCEDSTATUSCODES", "PIPELINING", "SIZE 10240000", "AUTH PLAIN LOGIN"}

var replyTexts = []string{"4.1.1 Mailbox busy", "5.1.1 User unknown", "Service not available", "blocked client 2.3.4.5 sorry", "5.7.1", "4.2.2 first line\n4.2.2 second line",
	"no code here\n5.5.5 code on second line", "2.0.0 odd but fine", "", "5.1.1x no word boundary", "4.3.0 Mail system \t full"}

func genRcpt(r *Rng, i int) string {
	pool := []string{"rcpt%d@example.com", "other.rcpt%d@example.org", "\"quoted rcpt %d\"@example.com", "Rcpt Name <named%d@example.net>", "rcpt+tag%d@example.com",
		"pct%%s.rcpt%d@example.com", "user%%%%eu%d@example.com", "bob%%example.org%d@relay.example.com", "empfänger%d@example.com", "受信者%d@example.jp"}
	return fmt.Sprintf(pool[r.Intn(len(pool))], i)
}

func genFailAction(r *Rng) SrvAction {
	switch r.Intn(12) {
	case 0:
		return SrvAction{Kind: "drop"}
	case 1:
		return SrvAction{Kind: "garbage"}
	case 2:
		// positive replies, also of several lines (a queue id on a second line, ...): positions that expect
		// another code (354 to DATA, 221 to QUIT, 220 greeting) take it as what it is, a wrong code
		return SrvAction{Kind: "reply", Code: 250, Text: []string{"2.0.0 explicit ok", "2.0.0 Ok: message accepted\n2.0.0 queued as 42", "first line\nsecond line\nthird line", "2.1.5 ok\n2.1.5 really"}[r.Intn(4)]}
	case 3, 4, 5, 6:
		return SrvAction{Kind: "reply", Code: 400 + []int{21, 50, 51, 52, 41, 0, 99}[r.Intn(7)], Text: replyTexts[r.Intn(len(replyTexts))]}
	default:
		return SrvAction{Kind: "reply", Code: 500 + []int{50, 51, 52, 53, 54, 1, 0, 99, 3}[r.Intn(9)], Text: replyTexts[r.Intn(len(replyTexts))]}
	}
}

func genScenario(r *Rng, maxMsgs, maxRcpts int) *SmtpScenario {
	sc := &SmtpScenario{Script: map[int]SrvAction{}}
	for _, cp := range capPool {
		if r.Chance(55) {
			sc.Caps = append(sc.Caps, cp)
		}
	}
	if r.Chance(30) {
		sc.Helo = []string{"client.example.net", "localhost", "[192.0.2.1]"}[r.Intn(3)]
	}
	sc.NoNoop = r.Chance(30)
	// STARTTLS sessions: a second EHLO inside TLS, whose capability list may differ from the first one
	if r.Chance(25) {
		sc.TLS = []string{"mandatory", "opportunistic"}[r.Intn(2)]
		if r.Chance(90) {
			sc.Caps = append(sc.Caps, "STARTTLS")
			if r.Chance(70) {
				lines := []string{"verif.example greets you again"}
				for _, cp := range capPool {
					if r.Chance(45) {
						lines = append(lines, cp)
					}
				}
				// greeting 0, EHLO 1, STARTTLS 2, handshake 3, EHLO 4
				sc.Script[4] = SrvAction{Kind: "reply", Code: 250, Text: strings.Join(lines, "\n")}
			}
		}
	}
	if r.Chance(30) {
		sc.DSN = true
		if r.Chance(60) {
			sc.DSNReturn = []string{"HDRS", "FULL"}[r.Intn(2)]
		}
		if r.Chance(60) {
			sc.DSNNotify = [][]string{{"NEVER"}, {"SUCCESS"}, {"SUCCESS", "FAILURE"}, {"FAILURE", "DELAY"}}[r.Intn(4)]
		}
	}
	nm := 1 + r.Intn(maxMsgs)
	for i := 0; i < nm; i++ {
		m := SmtpMsg{From: fmt.Sprintf("sender%d@example.com", i)}
		if r.Chance(8) {
			m.From = fmt.Sprintf("sender%%d%d@example.com", i)
		}
		if r.Chance(8) {
			// internationalised senders (whether the server offers SMTPUTF8 or not)
			m.From = fmt.Sprintf([]string{"jürgen.müller%d@example.com", "送信者%d@example.com", "عل\u200cرضا%d@example.com", "\"quoted ü %d\"@example.com"}[r.Intn(4)], i)
		}
		if r.Chance(10) {
			m.EnvFrom = fmt.Sprintf("bounce%d@example.com", i)
			if r.Chance(20) {
				m.EnvFrom = fmt.Sprintf("rücklauf%d@example.com", i)
			}
		}
		if r.Chance(4) {
			m.From = ""
			m.EnvFrom = ""
		}
		nr := 1 + r.Intn(maxRcpts)
		for k := 0; k < nr; k++ {
			switch r.Intn(4) {
			case 0:
				m.Cc = append(m.Cc, genRcpt(r, 10*i+k))
			case 1:
				m.Bcc = append(m.Bcc, genRcpt(r, 10*i+k))
			default:
				m.To = append(m.To, genRcpt(r, 10*i+k))
			}
		}
		if r.Chance(3) {
			m.To, m.Cc, m.Bcc = nil, nil, nil
		}
		m.EightBit = r.Chance(15)
		if r.Chance(25) {
			m.Charset = []string{"US-ASCII", "ISO-8859-1", "UTF-8", "windows-1252"}[r.Intn(4)]
		}
		if r.Chance(10) {
			m.RenderFail = true
			m.FailEarly = r.Bool()
			if !m.FailEarly {
				m.FailVia = []string{"", "seeker", "seeker-eof", "sign", "fs-gone"}[r.Intn(5)]
				m.Signed = m.FailVia != "sign" && r.Chance(35)
			}
		}
		if r.Chance(10) {
			m.AttachBytes = []int{1, 100, 5000, 70000}[r.Intn(4)]
		}
		if r.Chance(12) && len(m.To) > 0 {
			// the same mailbox more than once: again in To, and as a Cc or Bcc of the same message
			dup := m.To[r.Intn(len(m.To))]
			switch r.Intn(3) {
			case 0:
				m.To = append(m.To, dup)
			case 1:
				m.Cc = append(m.Cc, dup)
			default:
				m.Bcc = append(m.Bcc, dup)
			}
		}
		m.ToViaAdd = len(m.To) > 1 && r.Chance(35)
		if r.Chance(20) {
			m.Body = string(genBody(r, genLen(r, 6000)))
		}
		sc.Msgs = append(sc.Msgs, m)
	}
	if r.Chance(50) {
		sc.Variant = r.U64() | 1
	}
	if r.Chance(6) {
		sc.CtxCancelInMsg = 1 + r.Intn(len(sc.Msgs))
	} else if r.Chance(8) {
		sc.CtxCancelAtPos = 1 + r.Intn(7)
	}
	if sc.TLS == "" && r.Chance(15) {
		// the Client has been used before: against a server with other capabilities, with failures
		w := &SmtpScenario{Script: map[int]SrvAction{}}
		for _, cp := range capPool {
			if r.Chance(55) {
				w.Caps = append(w.Caps, cp)
			}
		}
		for k := 0; k < r.Intn(3); k++ {
			w.Script[r.Intn(12)] = genFailAction(r)
		}
		nw := 1 + r.Intn(2)
		for i := 0; i < nw; i++ {
			w.Msgs = append(w.Msgs, SmtpMsg{From: fmt.Sprintf("warm%d@example.com", i), To: []string{fmt.Sprintf("warm.rcpt%d@example.com", i)}, RenderFail: r.Chance(15)})
		}
		sc.Warmup = w
	}
	return sc
}

// runAndCompare runs the scenario on the implementation and registers the correspondence case
func runAndCompare(c *Ctx, sc *SmtpScenario, branch string) *SmtpRun {
	run, _ := RunScenario(sc)
	if run.Panic != nil {
		if str, ok := run.Panic.(string); ok && strings.HasPrefix(str, "the call did not return") {
			c.Violate("c17-blocks-forever", str, sc)
		} else {
			c.Violate("smtp-panic", fmt.Sprintf("the client panicked: %v", run.Panic), sc)
		}
		return run
	}
	if run.Stage == "config" {
		c.Note("config error: %v", run.Err)
		return nil
	}
	nfaults := len(sc.Script)
	c.AddCase(Case{Line: sc.modelLine(run), Want: run.wantLine(), Nontrivial: nfaults > 0 || len(sc.Msgs) > 1,
		Branch: branch, Desc: sc})
	return run
}

// positionsOf runs the scenario without faults to learn how many script positions it has
func positionsOf(sc *SmtpScenario) (int, []string) {
	clean := *sc
	clean.Script = map[int]SrvAction{}
	run, _ := RunScenario(&clean)
	return len(run.Applied), run.Verbs
}

func smtpSuite(c *Ctx, oracle func(c *Ctx, sc *SmtpScenario, run *SmtpRun), quick, thorough int) {
	n := c.N(quick, thorough)
	for i := 0; i < n; i++ {
		r := c.Rng
		sc := genScenario(r, 3, 3)
		npos, verbs := positionsOf(sc)
		nf := 0
		switch {
		case r.Chance(15):
			nf = 0
		case r.Chance(60):
			nf = 1
		default:
			nf = 2 + r.Intn(2)
		}
		branch := "clean"
		for k := 0; k < nf && npos > 0; k++ {
			p := r.Intn(npos)
			sc.Script[p] = genFailAction(r)
			if p < len(verbs) && k == 0 {
				branch = "fault@" + verbs[p] + ":" + sc.Script[p].Kind
			}
		}
		run := runAndCompare(c, sc, branch)
		if run != nil && run.Panic == nil {
			oracle(c, sc, run)
		}
	}
}

func oracleLegal(c *Ctx, sc *SmtpScenario, run *SmtpRun) {
	c.rep.OracleChecked++
	for _, p := range judgeDialogue(run.Events) {
		cls := "c04-illegal"
		switch {
		case strings.Contains(p, "MAIL inside an open transaction"):
			cls = "c04-nested-mail"
		case strings.Contains(p, "before the greeting"):
			cls = "c04-before-greeting"
		case strings.Contains(p, "DATA although"):
			cls = "c04-data-after-rejected-rcpt"
		case strings.Contains(p, "without the"):
			cls = "c04-unadvertised-parameter"
		case strings.Contains(p, "out of step"):
			cls = "c04-out-of-step"
		}
		c.Violate(cls, p, sc)
	}
	// DATA only when EVERY recipient of the message was accepted: the recipients the caller set (expected
	// envelope, computed from the scenario) must all have been offered before DATA is sent
	if run.Stage != "dial" && run.CheckErr == nil {
		adv8 := advertisedExt(run.Events)["8BITMIME"]
		dialogues := splitPerMessage(run.Events)
		di := 0
		for i, m := range run.Msgs {
			if i >= len(sc.Msgs) {
				break
			}
			sm := sc.Msgs[i]
			if (sm.From == "" && sm.EnvFrom == "") || len(m.AllRcpts) == 0 || (sm.EightBit && !adv8) || hasCtl(m.Sender) {
				continue // refused locally: never on the wire
			}
			if di >= len(dialogues) {
				break
			}
			d := dialogues[di]
			di++
			offered, dataSent := 0, false
			for k, st := range d.step {
				if st == "RCPT" {
					offered++
				}
				if st == "DATA" {
					dataSent = true
					_ = k
				}
			}
			want := 0
			for _, rc := range m.AllRcpts {
				if !hasCtl(rc) {
					want++
				}
			}
			if dataSent && offered < want {
				c.Violate("c04-data-without-all-recipients", fmt.Sprintf("message %d has %d recipients, DATA was sent after only %d RCPT commands", i, want, offered), sc)
			}
		}
	}
	// 8bit messages are refused locally when 8BITMIME is missing
	has8 := advertisedExt(run.Events)["8BITMIME"]
	if !has8 {
		for i, m := range sc.Msgs {
			if m.EightBit && i < len(run.Msgs) && run.Msgs[i].Delivered {
				c.Violate("c04-8bit-sent", fmt.Sprintf("8bit message %d was sent although the server does not advertise 8BITMIME", i), sc)
			}
		}
	}
}

func init() {
	register(Suite{Name: "c04-dialogue", Property: "C04",
		Rule: "DialAndSend of batches (<=3 messages x <=3 recipients) against scripted servers: capability subsets, DSN / 8bit configurations, 0..3 faults (4yz, 5yz, drop, garbage) at random command positions; event traces compared with the Lean session model; RFC 5321 judge on the transcript; non-trivial = at least one fault or more than one message; distinct by (configuration, script, batch)",
		Run: func(c *Ctx) { smtpSuite(c, oracleLegal, 1500, 80000) }})
	register(Suite{Name: "c03-commit", Property: "C03",
		Rule: "same scenario space with failing renderings (producer fails before/after data) and large bodies; what the reference server committed at end-of-data is compared with the complete renderings, IsDelivered/HasSendError with the end-of-data replies; traces compared with the model; distinct by scenario",
		Run: func(c *Ctx) {
			smtpSuite(c, func(c *Ctx, sc *SmtpScenario, run *SmtpRun) {
				oracleCommit(c, sc, run)
			}, 1500, 80000)
		}})
	register(Suite{Name: "c20-senderror", Property: "C20",
		Rule: "same scenario space; SendError (reason, code, temporary, enhanced status code, recipients, joined entries) of every message compared with the replies the server actually sent and with the model; distinct by scenario",
		Run: func(c *Ctx) { smtpSuite(c, oracleSendError, 1500, 80000) }})
}

func init() {
	register(Suite{Name: "c19-dialsend", Property: "C19",
		Rule: "DialAndSend of generated batches with 0..3 faults (4yz, 5yz, garbage, disconnect) at random positions of the whole dialogue incl. QUIT; the tracking connection must be closed when the call returns (error or success), success must have sent QUIT; traces compared with the model; distinct by scenario",
		Run: func(c *Ctx) {
			smtpSuite(c, func(c *Ctx, sc *SmtpScenario, run *SmtpRun) { oracleClosed(c, sc, run, true) }, 1200, 60000)
		}})
	register(Suite{Name: "c17-send-stall", Property: "C17",
		Rule: "DialAndSend of generated batches; the server falls silent at one position of the dialogue (every position of each generated scenario, exhaustive per scenario: greeting, EHLO, NOOP, MAIL, each RCPT, DATA, end-of-data, RSET, QUIT); virtual time; no wait without an armed deadline; the call must return an error; traces compared with the model",
		Run: func(c *Ctx) {
			n := c.N(40, 1500)
			for i := 0; i < n; i++ {
				sc := genScenario(c.Rng, 2, 2)
				for mi := range sc.Msgs {
					sc.Msgs[mi].RenderFail = false
				}
				npos, verbs := positionsOf(sc)
				for pos := 0; pos < npos; pos++ {
					sc2 := *sc
					sc2.Script = map[int]SrvAction{}
					for k, v := range sc.Script {
						sc2.Script[k] = v
					}
					sc2.Script[pos] = SrvAction{Kind: "stall"}
					sc2.Timeout = 300 * time.Millisecond
					if verbs[pos] == "DATA" && sc.TLS == "" {
						// also: the server accepts DATA and then stops reading, while the content is larger than
						// what the transport buffers: the client waits in a WRITE
						sc3 := sc2
						sc3.Script = map[int]SrvAction{}
						for k, v := range sc.Script {
							sc3.Script[k] = v
						}
						sc3.Script[pos] = SrvAction{Kind: "deaf"}
						sc3.Msgs = append([]SmtpMsg(nil), sc.Msgs...)
						for mi := range sc3.Msgs {
							sc3.Msgs[mi].Body = ""
							sc3.Msgs[mi].BigBody = []int{0, 300 << 10, 1 << 20}[c.Rng.Intn(3)]
							sc3.Msgs[mi].AttachBytes = []int{0, 0, 300 << 10, 3 << 20}[c.Rng.Intn(4)]
						}
						run3 := runAndCompare(c, &sc3, "deaf@DATA")
						if run3 != nil && run3.Panic == nil {
							oracleStalls(c, &sc3, run3)
							c.rep.OracleChecked++
							if run3.Err == nil {
								c.Violate("c17-no-error", "the server stopped reading after DATA but DialAndSend returned nil", &sc3)
							}
						}
					}
					run := runAndCompare(c, &sc2, "stall@"+verbs[pos])
					if run == nil || run.Panic != nil {
						continue
					}
					oracleStalls(c, &sc2, run)
					oracleWaits(c, &sc2, run)
					c.rep.OracleChecked++
					if run.Err == nil && verbs[pos] != "QUIT" {
						c.Violate("c17-no-error", "the server stalled at "+verbs[pos]+" but DialAndSend returned nil", &sc2)
					}
				}
			}
		}})
}

// structuralProblems: the verdict of the Go judge restricted to what the Lean reference automaton
// (Smtp/Judge.lean) decides: order and step of commands, not ESMTP parameters or line syntax
func structuralProblems(evs []Event) []string {
	var out []string
	for _, p := range judgeDialogue(evs) {
		if strings.Contains(p, "without the") || strings.Contains(p, "contains CR or LF") || strings.Contains(p, "parameter without") {
			continue
		}
		out = append(out, p)
	}
	return out
}

// mutateTrace makes a (probably illegal) dialogue out of a recorded one
func mutateTrace(r *Rng, evs []Event) []Event {
	out := append([]Event(nil), evs...)
	if len(out) < 3 {
		return out
	}
	idxOf := func(pred func(Event) bool) []int {
		var ix []int
		for i, e := range out {
			if pred(e) {
				ix = append(ix, i)
			}
		}
		return ix
	}
	cmds := idxOf(func(e Event) bool { return e.Kind == "cmd" })
	replies := idxOf(func(e Event) bool { return e.Kind == "reply" })
	switch r.Intn(7) {
	case 0: // drop a reply: the next command is out of step
		if len(replies) > 0 {
			i := replies[r.Intn(len(replies))]
			out = append(out[:i], out[i+1:]...)
		}
	case 1: // duplicate a command (with a reply of its own)
		if len(cmds) > 0 {
			i := cmds[r.Intn(len(cmds))]
			dup := []Event{out[i], {Kind: "reply", Code: 250, Line: "ok"}}
			out = append(out[:i], append(dup, out[i:]...)...)
		}
	case 2: // turn an accepting reply into a refusal
		if len(replies) > 0 {
			i := replies[r.Intn(len(replies))]
			out[i].Code = 550
		}
	case 3: // remove a command together with its reply
		if len(cmds) > 0 {
			i := cmds[r.Intn(len(cmds))]
			j := i + 1
			if j < len(out) && out[j].Kind == "reply" {
				j++
			}
			out = append(out[:i], out[j:]...)
		}
	case 4: // swap two commands
		if len(cmds) > 1 {
			a, b := cmds[r.Intn(len(cmds))], cmds[r.Intn(len(cmds))]
			out[a], out[b] = out[b], out[a]
		}
	case 5: // the greeting is refused, the client talks anyway
		if len(replies) > 0 {
			out[replies[0]].Code = 554
		}
	case 6: // insert a DATA somewhere
		i := 1 + r.Intn(len(out)-1)
		ins := []Event{{Kind: "cmd", Line: "DATA"}, {Kind: "reply", Code: 354, Line: "go"}}
		out = append(out[:i], append(ins, out[i:]...)...)
	}
	return out
}

func init() {
	register(Suite{Name: "c04-judges", Property: "C04",
		Rule: "the reference automaton of the C04 theorem (Lean, Smtp/Judge.lean) against the harness judge (Go, oracle_smtp.go) on the same dialogues: the traces of the real client under generated scripts (both must accept), and mutations of them (reply removed, command duplicated / removed / swapped, acceptance turned into refusal, refused greeting, stray DATA): the two verdicts must agree; non-trivial = mutated trace",
		Run: func(c *Ctx) {
			n := c.N(700, 40000)
			for i := 0; i < n; i++ {
				r := c.Rng
				sc := genScenario(r, 3, 3)
				npos, _ := positionsOf(sc)
				for k := 0; k < r.Intn(3) && npos > 0; k++ {
					sc.Script[r.Intn(npos)] = genFailAction(r)
				}
				run, _ := RunScenario(sc)
				if run.Panic != nil || run.Stage == "config" {
					continue
				}
				c.rep.OracleChecked++
				probs := structuralProblems(run.Events)
				if len(probs) > 0 {
					c.Violate("c04-illegal", probs[0], sc)
				}
				c.AddCase(Case{Line: "smtp judge " + encLS(traceStrings(run.Events)), Want: "legal=" + encBool(len(probs) == 0), Nontrivial: false,
					Branch: "real", Desc: sc})
				for m := 0; m < 3; m++ {
					mut := mutateTrace(r, run.Events)
					mp := structuralProblems(mut)
					c.AddCase(Case{Line: "smtp judge " + encLS(traceStrings(mut)), Want: "legal=" + encBool(len(mp) == 0), Nontrivial: true,
						Branch: fmt.Sprintf("mutated legal=%v", len(mp) == 0), Desc: map[string]interface{}{"scenario": sc, "mutated_trace": traceStrings(mut), "go_judge": mp}})
				}
			}
		}})
}
