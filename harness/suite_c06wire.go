package main

import (
	"fmt"
	"strings"
)

// c06-wire: the envelope as the SERVER sees it (the other C06 suites look at GetSender / GetRecipients and at
// the rendering). Expected values come from the scenario, not from the library's getters.
func init() {
	register(Suite{Name: "c06-wire", Property: "C06",
		Rule: "DialAndSend (and the equivalent entry points) of 1..3 messages whose To / Cc / Bcc are drawn from a pool of five plain addresses - so the same address occurs in several lists, or twice in one - with and without an explicit envelope sender, with every DSN setting (none, WithDSN, NOTIFY types, RET) and a server that does or does not offer DSN; oracle: per accepted transaction the MAIL FROM path is the envelope-from (else the From address) and the RCPT TO paths are exactly To, Cc, Bcc in that order, one per occurrence; compared with the session model",
		Run: func(c *Ctx) {
			n := c.N(400, 20000)
			pool := []string{"alice@example.com", "bob@example.org", "carol@example.net", "dave@example.com", "erin@example.org"}
			for i := 0; i < n; i++ {
				r := c.Rng
				sc := &SmtpScenario{Caps: []string{"8BITMIME", "PIPELINING"}, Script: map[int]SrvAction{}, Helo: "client.example"}
				if r.Chance(70) {
					sc.Caps = append(sc.Caps, "DSN")
				}
				switch r.Intn(5) {
				case 1:
					sc.DSN = true
				case 2:
					sc.DSNNotify = [][]string{{"SUCCESS"}, {"FAILURE"}, {"NEVER"}, {"SUCCESS", "FAILURE"}, {"DELAY", "FAILURE"}}[r.Intn(5)]
				case 3:
					sc.DSNReturn = []string{"FULL", "HDRS"}[r.Intn(2)]
				case 4:
					sc.DSN = true
					sc.DSNNotify = [][]string{{"SUCCESS"}, {"FAILURE", "DELAY"}}[r.Intn(2)]
					sc.DSNReturn = "HDRS"
				}
				if r.Chance(50) {
					sc.Variant = r.U64() | 1
				}
				nm := 1 + r.Intn(3)
				for k := 0; k < nm; k++ {
					m := SmtpMsg{From: "sender@example.com", Body: fmt.Sprintf("message %d", k)}
					if r.Chance(30) {
						m.EnvFrom = "bounces@example.net"
					}
					pick := func(max int) []string {
						var out []string
						for j := r.Intn(max + 1); j > 0; j-- {
							out = append(out, pool[r.Intn(len(pool))])
						}
						return out
					}
					m.To = pick(3)
					if len(m.To) == 0 {
						m.To = []string{pool[r.Intn(len(pool))]}
					}
					m.Cc = pick(3)
					m.Bcc = pick(3)
					if r.Chance(40) {
						// the classic: a visible recipient who also gets a blind copy
						m.Bcc = append(m.Bcc, m.To[0])
					}
					m.ToViaAdd = len(m.To) > 1 && r.Bool()
					sc.Msgs = append(sc.Msgs, m)
				}
				run := runAndCompare(c, sc, fmt.Sprintf("dsn=%v:notify=%d:ret=%v", sc.DSN, len(sc.DSNNotify), sc.DSNReturn != ""))
				if run == nil || run.Panic != nil {
					continue
				}
				c.rep.OracleChecked++
				// transactions as the server saw them
				type tx struct {
					from  string
					rcpts []string
				}
				var txs []tx
				for _, e := range run.Events {
					if e.Kind != "cmd" {
						continue
					}
					switch verbOf(e.Line) {
					case "MAIL":
						l, d, _, err := parsePath5321(strings.TrimPrefix(e.Line, "MAIL FROM:"))
						if err != nil {
							c.Violate("c06-wire-unparseable", fmt.Sprintf("%q: %v", e.Line, err), sc)
						}
						txs = append(txs, tx{from: l + "@" + d})
					case "RCPT":
						l, d, _, err := parsePath5321(strings.TrimPrefix(e.Line, "RCPT TO:"))
						if err != nil || len(txs) == 0 {
							c.Violate("c06-wire-unparseable", fmt.Sprintf("%q: %v", e.Line, err), sc)
							continue
						}
						txs[len(txs)-1].rcpts = append(txs[len(txs)-1].rcpts, l+"@"+d)
					}
				}
				if len(txs) != len(sc.Msgs) {
					c.Violate("c06-wire-transactions", fmt.Sprintf("%d messages, the server saw %d MAIL commands (it refuses nothing)", len(sc.Msgs), len(txs)), sc)
					continue
				}
				for k, m := range sc.Msgs {
					wantFrom := m.From
					if m.EnvFrom != "" {
						wantFrom = m.EnvFrom
					}
					if txs[k].from != wantFrom {
						c.Violate("c06-wire-sender", fmt.Sprintf("message %d: MAIL FROM %s, the envelope sender is %s", k, txs[k].from, wantFrom), sc)
					}
					want := append(append(append([]string{}, m.To...), m.Cc...), m.Bcc...)
					if strings.Join(want, " ") != strings.Join(txs[k].rcpts, " ") {
						c.Violate("c06-wire-recipients", fmt.Sprintf("message %d: RCPT TO sequence %v, To+Cc+Bcc is %v", k, txs[k].rcpts, want), sc)
					}
				}
			}
		}})
}
