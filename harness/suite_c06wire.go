package main

import (
	"fmt"
	"strings"
)

// c06-wire: the envelope as the SERVER sees it (the other C06 suites look at GetSender / GetRecipients and at
// the rendering). Expected values come from the scenario, not from the library's getters.
func init() {
	register(Suite{Name: "c06-wire", Property: "C06",
		Rule: "DialAndSend (and the equivalent entry points) of 1..3 messages whose To / Cc / Bcc are drawn from a pool of five plain addresses - so the same address occurs in several lists, or twice in one - with and without an explicit envelope sender, with every DSN setting (none, WithDSN, NOTIFY types, RET) and a server that does or does not offer DSN; oracle: per accepted transaction the MAIL FROM path is the envelope-from (else the From address) and the RCPT TO paths are exactly To, Cc, Bcc in that order, one per occurrence; compared with the session model",
		Run: func(c *Ctx) {
			n := c.N(400, 20000)
			pool := []string{"alice@example.com", "bob@example.org", "carol@example.net", "dave@example.com", "erin@example.org"}
			for i := 0; i < n; i++ {
				r := c.Rng
				sc := &SmtpScenario{Caps: []string{"8BITMIME", "PIPELINING"}, Script: map[int]SrvAction{}, Helo: "client.example"}
				if r.Chance(70) {
					sc.Caps = append(sc.Caps, "DSN")
				}
				switch r.Intn(5) {
				case 1:
					sc.DSN = true
				case 2:
					sc.DSNNotify = [][]string{{"SUCCESS"}, {"FAILURE"}, {"NEVER"}, {"SUCCESS", "FAILURE"}, {"DELAY", "FAILURE"}}[r.Intn(5)]
				case 3:
					sc.DSNReturn = []string{"FULL", "HDRS"}[r.Intn(2)]
				case 4:
					sc.DSN = true
					sc.DSNNotify = [][]string{{"SUCCESS"}, {"FAILURE", "DELAY"}}[r.Intn(2)]
					sc.DSNReturn = "HDRS"
				}
				if r.Chance(50) {
					sc.Variant = r.U64() | 1
				}
				nm := 1 + r.Intn(3)
				for k := 0; k < nm; k++ {
					m := SmtpMsg{From: "sender@example.com", Body: fmt.Sprintf("message %d", k)}
					if r.Chance(30) {
						m.EnvFrom = "bounces@example.net"
					}
					pick := func(max int) []string {
						var out []string
						for j := r.Intn(max + 1); j > 0; j-- {
							out = append(out, pool[r.Intn(len(pool))])
						}
						return out
					}
					m.To = pick(3)
					if len(m.To) == 0 {
						m.To = []string{pool[r.Intn(len(pool))]}
					}
					m.Cc = pick(3)
					m.Bcc = pick(3)
					if r.Chance(40) {
						// the classic: a visible recipient who also gets a blind copy
						m.Bcc = append(m.Bcc, m.To[0])
					}
					m.ToViaAdd = len(m.To) > 1 && r.Bool()
					sc.Msgs = append(sc.Msgs, m)
				}
				run := runAndCompare(c, sc, fmt.Sprintf("dsn=%v:notify=%d:ret=%v", sc.DSN, len(sc.DSNNotify), sc.DSNReturn != ""))
				if run == nil || run.Panic != nil {
					continue
				}
				c.rep.OracleChecked++
				// transactions as the server saw them
				type tx struct {
					from  string
					rcpts []string
				}
				var txs []tx
				for _, e := range run.Events {
					if e.Kind != "cmd" {
						continue
					}
					switch verbOf(e.Line) {
					case "MAIL":
						l, d, _, err := parsePath5321(strings.TrimPrefix(e.Line, "MAIL FROM:"))
						if err != nil {
							c.Violate("c06-wire-unparseable", fmt.Sprintf("%q: %v", e.Line, err), sc)
						}
						txs = append(txs, tx{from: l + "@" + d})
					case "RCPT":
						l, d, _, err := parsePath5321(strings.TrimPrefix(e.Line, "RCPT TO:"))
						if err != nil || len(txs) == 0 {
							c.Violate("c06-wire-unparseable", fmt.Sprintf("%q: %v", e.Line, err), sc)
							continue
						}
						txs[len(txs)-1].rcpts = append(txs[len(txs)-1].rcpts, l+"@"+d)
					}
				}
				if len(txs) != len(sc.Msgs) {
					c.Violate("c06-wire-transactions", fmt.Sprintf("%d messages, the server saw %d MAIL commands (it refuses nothing)", len(sc.Msgs), len(txs)), sc)
					continue
				}
				for k, m := range sc.Msgs {
					wantFrom := m.From
					if m.EnvFrom != "" {
						wantFrom = m.EnvFrom
					}
					if txs[k].from != wantFrom {
						c.Violate("c06-wire-sender", fmt.Sprintf("message %d: MAIL FROM %s, the envelope sender is %s", k, txs[k].from, wantFrom), sc)
					}
					want := append(append(append([]string{}, m.To...), m.Cc...), m.Bcc...)
					if strings.Join(want, " ") != strings.Join(txs[k].rcpts, " ") {
						c.Violate("c06-wire-recipients", fmt.Sprintf("message %d: RCPT TO sequence %v, To+Cc+Bcc is %v", k, txs[k].rcpts, want), sc)
					}
				}
			}
		}})
}

// c03-retry: a first attempt that fails (a transient read error of an attachment source, a server that refuses
// or hangs up) and a second Send of the SAME Msg values on a new connection: the retry must commit the complete
// messages.
func init() {
	register(Suite{Name: "c03-retry", Property: "C03",
		Rule: "generated batches sent twice by one Client - a first attempt against a server that behaves or fails at a random position, with attachments from read-seekers whose FIRST pass breaks off after n bytes (a transient read error), then the same Msg values again on a new connection: what the second server committed at end-of-data is compared with the complete renderings, IsDelivered / HasSendError with the replies; second run compared with the session model; distinct by scenario",
		Run: func(c *Ctx) {
			n := c.N(300, 15000)
			for i := 0; i < n; i++ {
				sc, flaky := retryScenario(c, c.Rng)
				run := runAndCompare(c, sc, fmt.Sprintf("flaky=%d:faults=%d", flaky, len(sc.Script)))
				if run == nil || run.Panic != nil {
					continue
				}
				oracleCommit(c, sc, run)
			}
		}})
}

// retryScenario: a batch, a first attempt that delivers nothing (451 at every end-of-data; flaky attachment
// sources break off), and the retry of the same Msg values, which is what the scenario describes
func retryScenario(c *Ctx, r *Rng) (*SmtpScenario, int) {
	sc := genScenario(r, 3, 3)
	sc.TLS = ""
	sc.Script = map[int]SrvAction{}
	flaky := 0
	for mi := range sc.Msgs {
		m := &sc.Msgs[mi]
		m.RenderFail, m.FailEarly, m.FailVia, m.Signed = false, false, "", false
		if r.Chance(60) {
			m.FlakyAttach = 1 + r.Intn(3000)
			flaky++
		}
	}
	warm := &SmtpScenario{Caps: sc.Caps, Script: map[int]SrvAction{}}
	if r.Chance(30) {
		warm.Script[r.Intn(8)] = genFailAction(r)
	}
	sc.Warmup = warm
	sc.RetryOfFailed = true
	if r.Chance(25) {
		npos, _ := positionsOf(sc)
		sc.Script[r.Intn(npos+1)] = genFailAction(r)
	}
	return sc, flaky
}

func init() {
	register(Suite{Name: "c20-retry", Property: "C20",
		Rule: "the scenarios of c03-retry (a first attempt in which every end-of-data is refused with 451 and flaky attachment sources break off; then the same Msg values sent again by the same Client): SendError of every message after the RETRY compared with the replies of the retry's server - a message that went through now carries no error, whatever the first attempt left - and with the session model",
		Run: func(c *Ctx) {
			n := c.N(300, 15000)
			for i := 0; i < n; i++ {
				sc, flaky := retryScenario(c, c.Rng)
				run := runAndCompare(c, sc, fmt.Sprintf("flaky=%d:faults=%d", flaky, len(sc.Script)))
				if run == nil || run.Panic != nil {
					continue
				}
				oracleSendError(c, sc, run)
			}
		}})
}
