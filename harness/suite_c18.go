package main

import (
	"bytes"
	"fmt"

	mail "github.com/wneessen/go-mail"
)

// ---------------------------------------------------------------------------------------------
// C18 unit suites: line breaker, header folding, body encoders under every chunking.

// line discipline oracle for an encoded body: CRLF only, lines <= 76
func oracleBodyLines(out []byte) string {
	for i := 0; i < len(out); i++ {
		if out[i] == '\n' && (i == 0 || out[i-1] != '\r') {
			return "bare LF"
		}
		if out[i] == '\r' && (i+1 >= len(out) || out[i+1] != '\n') {
			return "bare CR"
		}
	}
	for _, l := range bytes.Split(out, []byte("\r\n")) {
		if len(l) > 76 {
			return fmt.Sprintf("line of %d bytes", len(l))
		}
	}
	return ""
}

// unfold per RFC 5322: remove CRLF that is followed by WSP
func unfold(b []byte) []byte {
	return bytes.ReplaceAll(bytes.ReplaceAll(b, []byte("\r\n "), []byte(" ")), []byte("\r\n\t"), []byte("\t"))
}

func init() {
	register(Suite{Name: "c18-linebreaker", Property: "C18",
		Rule: "random base64-alphabet data of clustered lengths split into adversarial Write chunkings; non-trivial = total length >= 76 or more than one chunk; distinct by chunk list",
		Run: func(c *Ctx) {
			n := c.N(4000, 200000)
			for i := 0; i < n; i++ {
				r := c.Rng
				data := make([]byte, genLen(r, 400))
				for j := range data {
					data[j] = "ABCDEFGHIJKLMNOPQRSTUVWXYZabcdefghijklmnopqrstuvwxyz0123456789+/="[r.Intn(65)]
				}
				chunks := genChunks(r, data)
				out, err := mail.VerifLineBreaker(chunks)
				if err != nil {
					c.Violate("c18-linebreaker-error", err.Error(), encL(chunks))
				}
				if why := oracleBodyLines(out); why != "" {
					c.Violate("c18-linebreaker-line", why, encL(chunks))
				}
				if !bytes.Equal(bytes.ReplaceAll(out, []byte("\r\n"), nil), data) {
					c.Violate("c18-linebreaker-content", "output without CRLF differs from input", encL(chunks))
				}
				if len(data) > 0 && !bytes.HasSuffix(out, []byte("\r\n")) {
					c.Violate("c18-linebreaker-line", "output does not end in CRLF", encL(chunks))
				}
				c.rep.OracleChecked++
				branch := "short"
				if len(data) >= 76 {
					branch = "wrapped"
				}
				c.AddCase(Case{Line: "lb " + encL(chunks), Want: encB(out), Nontrivial: len(data) >= 76 || len(chunks) > 1,
					Branch: branch, Desc: map[string]interface{}{"op": "lb", "chunk_sizes": chunkSizes(chunks)}})
			}
		}})

	register(Suite{Name: "c18-fold", Property: "C18",
		Rule: "writeHeader on generated keys and value lists (word lengths 0..300, multiple/leading/trailing blanks, encoded-words); non-trivial = output has more than one line; distinct by (key, values)",
		Run: func(c *Ctx) {
			n := c.N(6000, 300000)
			for i := 0; i < n; i++ {
				r := c.Rng
				key := headerKeys[r.Intn(len(headerKeys))]
				nv := 1 + r.Intn(3)
				if r.Chance(3) {
					nv = 0
				}
				vals := make([]string, nv)
				for j := range vals {
					vals[j] = genHeaderValue(r)
				}
				out, lines := mail.VerifWriteHeader(key, vals...)
				c.AddCase(Case{Line: "fold " + encS(key) + " " + encLS(vals), Want: encB(out) + " " + encN(lines),
					Nontrivial: bytes.Count(out, []byte("\r\n")) > 1, Branch: fmt.Sprintf("lines=%d", min(lines, 4)),
					Desc: map[string]interface{}{"op": "fold", "key": key, "values": vals}})
				// oracle: line bound and unfolding
				c.rep.OracleChecked++
				if nv == 0 {
					continue
				}
				if !bytes.HasSuffix(out, []byte("\r\n")) {
					c.Violate("c18-fold-crlf", "header does not end in CRLF", map[string]interface{}{"key": key, "values": vals})
					continue
				}
				body := out[:len(out)-2]
				for _, l := range bytes.Split(body, []byte("\r\n")) {
					// "no header line exceeds 78 characters unless it consists of a single token without blanks"
					if len(l) > 78 {
						t := bytes.TrimLeft(l, " ")
						// the first line carries "Key: token"
						t = bytes.TrimPrefix(t, []byte(key+": "))
						if bytes.ContainsAny(bytes.TrimRight(t, " "), " ") {
							c.Violate("c18-fold-long", fmt.Sprintf("line of %d bytes with blanks", len(l)), map[string]interface{}{"key": key, "values": vals})
						}
					}
				}
				want := key + ": " + joinStrings(vals, ", ")
				if got := string(unfold(body)); got != want && normTrail(got) != normTrail(want) {
					c.Violate("c18-fold-unfold", "unfolded header differs from the value that was set", map[string]interface{}{"key": key, "values": vals, "got": got})
				}
			}
		}})

	register(Suite{Name: "c18-body", Property: "C18",
		Rule: "writeBody with each transfer encoding on adversarial content and chunkings of the producer's writes; non-trivial = content has >= 57 bytes or a line break or a byte needing escape; distinct by (encoding, chunks)",
		Run: func(c *Ctx) {
			n := c.N(5000, 250000)
			encs := []mail.Encoding{mail.EncodingQP, mail.EncodingB64, mail.NoEncoding, mail.EncodingUSASCII, mail.Encoding("binary")}
			for i := 0; i < n; i++ {
				r := c.Rng
				ei := r.Intn(len(encs))
				if r.Chance(60) {
					ei = r.Intn(2)
				}
				data := genBody(r, genLen(r, 400))
				chunks := genChunks(r, data)
				out, nb, err := mail.VerifWriteBody(encs[ei], chunks)
				if err != nil {
					c.Violate("c18-body-error", err.Error(), map[string]interface{}{"enc": string(encs[ei]), "chunks": encL(chunks)})
				}
				if int(nb) != len(out) {
					c.Violate("c12-count", fmt.Sprintf("bytesWritten %d != %d", nb, len(out)), map[string]interface{}{"enc": string(encs[ei]), "chunks": encL(chunks)})
				}
				c.rep.OracleChecked++
				if ei < 2 {
					if why := oracleBodyLines(out); why != "" {
						c.Violate("c18-body-line", string(encs[ei])+": "+why, map[string]interface{}{"enc": string(encs[ei]), "chunks": encL(chunks)})
					}
					// chunk independence, directly on the implementation
					out1, _, _ := mail.VerifWriteBody(encs[ei], [][]byte{data})
					if !bytes.Equal(out, out1) {
						c.Violate("c18-body-chunking", "output depends on the producer's chunking", map[string]interface{}{"enc": string(encs[ei]), "chunks": encL(chunks)})
					}
				}
				nt := len(data) >= 57 || bytes.ContainsAny(data, "\r\n=\x00\xff")
				c.AddCase(Case{Line: "body " + encN(ei) + " " + encL(chunks), Want: encB(out), Nontrivial: nt,
					Branch: "enc=" + string(encs[ei]), Desc: map[string]interface{}{"op": "body", "enc": string(encs[ei]), "len": len(data), "chunk_sizes": chunkSizes(chunks)}})
			}
		}})
}

func chunkSizes(chunks [][]byte) []int {
	s := make([]int, 0, len(chunks))
	for i, c := range chunks {
		if i >= 12 {
			break
		}
		s = append(s, len(c))
	}
	return s
}

func joinStrings(v []string, sep string) string {
	out := ""
	for i, s := range v {
		if i > 0 {
			out += sep
		}
		out += s
	}
	return out
}

// trailing blanks before a fold are removed by writeHeader's cleanup; compare modulo trailing blanks
func normTrail(s string) string {
	for len(s) > 0 && s[len(s)-1] == ' ' {
		s = s[:len(s)-1]
	}
	return s
}

func min(a, b int) int {
	if a < b {
		return a
	}
	return b
}
