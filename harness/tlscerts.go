package main

import (
	"crypto/ecdsa"
	"crypto/elliptic"
	"crypto/rand"
	"crypto/tls"
	"crypto/x509"
	"crypto/x509/pkix"
	"math/big"
	"net"
	"time"
)

func mkCA(cn string) (*x509.Certificate, *ecdsa.PrivateKey) {
	key, _ := ecdsa.GenerateKey(elliptic.P256(), rand.Reader)
	now := time.Now()
	tmpl := &x509.Certificate{SerialNumber: big.NewInt(now.UnixNano()), Subject: pkix.Name{CommonName: cn}, NotBefore: now.Add(-time.Hour),
		NotAfter: now.Add(48 * time.Hour), IsCA: true, BasicConstraintsValid: true, KeyUsage: x509.KeyUsageCertSign | x509.KeyUsageDigitalSignature}
	der, err := x509.CreateCertificate(rand.Reader, tmpl, tmpl, &key.PublicKey, key)
	if err != nil {
		panic(err)
	}
	cert, _ := x509.ParseCertificate(der)
	return cert, key
}

func mkLeaf(host string, ca *x509.Certificate, caKey *ecdsa.PrivateKey) tls.Certificate {
	key, _ := ecdsa.GenerateKey(elliptic.P256(), rand.Reader)
	now := time.Now()
	tmpl := &x509.Certificate{SerialNumber: big.NewInt(now.UnixNano() + 1), Subject: pkix.Name{CommonName: host}, NotBefore: now.Add(-time.Hour),
		NotAfter: now.Add(48 * time.Hour), KeyUsage: x509.KeyUsageDigitalSignature, ExtKeyUsage: []x509.ExtKeyUsage{x509.ExtKeyUsageServerAuth}}
	if ip := net.ParseIP(host); ip != nil {
		tmpl.IPAddresses = []net.IP{ip}
	} else {
		tmpl.DNSNames = []string{host}
	}
	der, err := x509.CreateCertificate(rand.Reader, tmpl, ca, &key.PublicKey, caKey)
	if err != nil {
		panic(err)
	}
	return tls.Certificate{Certificate: [][]byte{der}, PrivateKey: key}
}
