package main

import (
	"sync"
	"math/big"
	"crypto/x509/pkix"
	"crypto/x509"
	"crypto/rand"
	"crypto/ed25519"
	netmail "net/mail"
	"crypto/tls"
	"bytes"
	"context"
	"errors"
	"fmt"
	"io"
	"net"
	"net/textproto"
	"os"
	"sort"
	"strings"
	"time"

	mail "github.com/wneessen/go-mail"
)

// ---------------------------------------------------------------------------------------------
// One SMTP scenario: server script + client configuration + batch. Run against the real client
// (through WithDialContextFunc on the scripted connection) and serialised for the model.

type SmtpMsg struct {
	EightBit   bool     `json:"eight_bit,omitempty"`
	From       string   `json:"from,omitempty"` // "" = no sender
	EnvFrom    string   `json:"env_from,omitempty"`
	To         []string `json:"to,omitempty"`
	Cc         []string `json:"cc,omitempty"`
	Bcc        []string `json:"bcc,omitempty"`
	RenderFail bool     `json:"render_fail,omitempty"`
	FailEarly  bool     `json:"fail_early,omitempty"` // producer fails before emitting data
	Body       string   `json:"body,omitempty"`
	BigBody    int      `json:"big_body,omitempty"` // a generated body of this many bytes (lines of text) instead of Body
	// FailVia (with RenderFail): "" = the body producer fails; "seeker" / "seeker-eof" = an attachment whose
	// read-seeker source breaks off half-way, with a sentinel error / with an error that wraps io.EOF
	FailVia string `json:"fail_via,omitempty"`
	// AttachBytes > 0: the message also carries an attachment of this many bytes (a multipart message: the body and
	// the file go through the multipart layers of the writer)
	AttachBytes int `json:"attach_bytes,omitempty"`
	// Charset: the message charset (WithCharset), "" = the default. Combined with EightBit: a message that is labelled
	// US-ASCII or ISO-8859-1 and transferred unencoded is an 8bit message like any other
	Charset string `json:"charset,omitempty"`
	// Signed (only together with a failing file source): the message is also S/MIME signed with a usable key. A
	// failing producer must be reported whether or not the message goes through the signing pass first
	Signed bool `json:"signed,omitempty"`
	// FlakyAttach = n > 0: an attachment from a read-seeker whose FIRST pass fails after n bytes (a transient
	// read error); every later pass delivers the whole content. Used with SmtpScenario.RetryOfFailed
	FlakyAttach int `json:"flaky_attach,omitempty"`
	// ToViaAdd: the To list is built with To(first) followed by one AddTo per further address
	ToViaAdd bool `json:"to_via_add,omitempty"`
}

var (
	unusableOnce sync.Once
	unusableKey  ed25519.PrivateKey
	unusableCert *x509.Certificate
)

// unusableSignerKey: a key pair SignWithKeypair accepts but the S/MIME signer (RSA / ECDSA only) cannot sign with
func unusableSignerKey() (ed25519.PrivateKey, *x509.Certificate) {
	unusableOnce.Do(func() {
		pub, priv, _ := ed25519.GenerateKey(rand.Reader)
		tpl := &x509.Certificate{SerialNumber: big.NewInt(7), Subject: pkix.Name{CommonName: "sender@example.com"},
			NotBefore: time.Now().Add(-time.Hour), NotAfter: time.Now().Add(24 * time.Hour)}
		der, _ := x509.CreateCertificate(rand.Reader, tpl, tpl, pub, priv)
		unusableKey = priv
		unusableCert, _ = x509.ParseCertificate(der)
	})
	return unusableKey, unusableCert
}

// failSeeker: an io.ReadSeeker that delivers the first half of data and then fails, every time
type failSeeker struct {
	data []byte
	pos  int
	err  error
}

func (f *failSeeker) Read(p []byte) (int, error) {
	half := len(f.data) / 2
	if f.pos >= half {
		return 0, f.err
	}
	n := copy(p, f.data[f.pos:half])
	f.pos += n
	return n, nil
}

func (f *failSeeker) Seek(off int64, whence int) (int64, error) {
	if whence == io.SeekStart {
		f.pos = int(off)
	}
	return int64(f.pos), nil
}

type SmtpScenario struct {
	Caps       []string          `json:"caps"`
	Script     map[int]SrvAction `json:"script"`
	Helo       string            `json:"helo"`
	NoNoop     bool              `json:"no_noop,omitempty"`
	DSN        bool              `json:"dsn,omitempty"`
	DSNReturn  string            `json:"dsn_return,omitempty"`
	DSNNotify  []string          `json:"dsn_notify,omitempty"`
	TLS        string            `json:"tls,omitempty"` // "" = NoTLS, "mandatory", "opportunistic" (STARTTLS with a real handshake)
	Timeout    time.Duration     `json:"-"`             // real-time timeout (only matters inside TLS, where waits are real)
	Msgs       []SmtpMsg         `json:"msgs"`
	// Variant != 0: equivalent API entry points chosen from this seed (setters instead of options;
	// DialAndSend, or DialWithContext + Send + Close on the shared connection, or the explicit
	// DialToSMTPClientWithContext + SendWithSMTPClient + CloseWithSMTPClient, instead of DialAndSendWithContext)
	Variant uint64 `json:"variant,omitempty"`
	// CtxCancelInMsg = k > 0: the context handed to DialAndSendWithContext is cancelled while the body of
	// the k-th message is being produced (a context meant for the dial that runs out during a send)
	CtxCancelInMsg int `json:"ctx_cancel_in_msg,omitempty"`
	// CtxCancelAtPos = k > 0: the context handed to DialAndSendWithContext is cancelled while the server
	// handles script position k (the EHLO, STARTTLS, the handshake, AUTH, a later command): the connection
	// exists by then, so the dialogue goes on as if nothing had happened
	CtxCancelAtPos int `json:"ctx_cancel_at_pos,omitempty"`
	// Warmup: before the run that is looked at, the SAME Client performs this one against another server
	// incarnation (only Caps, Script and Msgs of it are used; not with TLS). Nothing of it may carry over.
	Warmup *SmtpScenario `json:"warmup,omitempty"`
	// RetryOfFailed (with Warmup): the warm-up run sends the SAME Msg values the main run sends afterwards - a
	// first attempt (which may fail: flaky sources, a warm-up server that refuses) and the retry that is looked at
	RetryOfFailed bool `json:"retry_of_failed,omitempty"`
}

type MsgResult struct {
	Delivered bool
	HasErr    bool
	Reason    int
	Temp      bool
	Code      int
	ESC       string
	Rcpts     []string
	NErrs     int
	Rendering []byte // complete rendering of the message (rendered again after the send)
	Sender    string
	AllRcpts  []string
}

type SmtpRun struct {
	Events    []Event
	Committed [][]byte
	Applied   []SrvAction
	Verbs     []string
	Err       error
	Stage     string // "", dial, send, close
	Msgs      []MsgResult
	Open      bool
	Closes    int
	Panic     interface{}
	CheckErr  *mail.SendError
	// APIProblems: the other accessors of a message's SendError disagree with the ones compared with the model
	APIProblems []string
	// WarmDelivered (RetryOfFailed): which messages the first attempt had already delivered
	WarmDelivered []bool
}

func errTag(err error) string {
	if err == nil {
		return "-"
	}
	var te *textproto.Error
	var pe textproto.ProtocolError
	switch {
	case errors.As(err, &te):
		return fmt.Sprintf("reply%d", te.Code)
	case errors.Is(err, errBlocksForever):
		return "blocked"
	case strings.Contains(err.Error(), "virtual deadline") || errors.Is(err, os.ErrDeadlineExceeded):
		return "timeout"
	case errors.Is(err, io.EOF) || errors.Is(err, io.ErrUnexpectedEOF) || errors.Is(err, io.ErrClosedPipe):
		return "eof"
	case errors.As(err, &pe):
		return "proto"
	case errors.Is(err, net.ErrClosed):
		return "closed"
	case strings.Contains(err.Error(), "must not contain CR or LF") || strings.Contains(err.Error(), "Hello called after"):
		return "invalid"
	case errors.Is(err, mail.ErrNoActiveConnection):
		return "noconn"
	case errors.Is(err, mail.ErrDeadlineExtendFailed):
		return "deadline"
	}
	return "other:" + err.Error()
}

func buildSmtpMsg(i int, sm SmtpMsg) *mail.Msg {
	var opts []mail.MsgOption
	if sm.EightBit {
		opts = append(opts, mail.WithEncoding(mail.NoEncoding))
	}
	if sm.Charset != "" {
		opts = append(opts, mail.WithCharset(mail.Charset(sm.Charset)))
	}
	m := mail.NewMsg(opts...)
	if sm.From != "" {
		_ = m.From(sm.From)
	}
	if sm.EnvFrom != "" {
		_ = m.EnvelopeFrom(sm.EnvFrom)
	}
	if len(sm.To) > 0 {
		if sm.ToViaAdd {
			_ = m.To(sm.To[0])
			for _, v := range sm.To[1:] {
				_ = m.AddTo(v)
			}
		} else {
			_ = m.To(sm.To...)
		}
	}
	if len(sm.Cc) > 0 {
		_ = m.Cc(sm.Cc...)
	}
	if len(sm.Bcc) > 0 {
		_ = m.Bcc(sm.Bcc...)
	}
	m.Subject(fmt.Sprintf("verif message %d", i))
	m.SetMessageIDWithValue(fmt.Sprintf("verif-%d@verif.example", i))
	body := sm.Body
	if body == "" {
		body = fmt.Sprintf("This is message %d.\r\n.leading dot\r\n..two dots\r\nlast line", i)
	}
	if sm.BigBody > 0 {
		line := fmt.Sprintf("message %d, a line of the big body .......................................\r\n", i)
		body = strings.Repeat(line, sm.BigBody/len(line)+1)
	}
	if sm.RenderFail && sm.FailVia == "sign" {
		// S/MIME signing fails when the message is written (a key the signer cannot use): the rendering
		// fails before its first byte
		m.SetBodyString(mail.TypeTextPlain, body)
		key, cert := unusableSignerKey()
		if err := m.SignWithKeypair(key, cert, nil); err != nil {
			m.SetBodyWriter(mail.TypeTextPlain, producer([][]byte{nil}, true))
		}
	} else if sm.RenderFail && sm.FailVia == "fs-gone" {
		// an attachment from the file system whose file is gone when the message is sent
		m.SetBodyString(mail.TypeTextPlain, body)
		if f, err := os.CreateTemp("", "gmverif-gone-*.txt"); err == nil {
			_, _ = f.WriteString("this file will not be there when the message is written\r\n")
			_ = f.Close()
			m.AttachFile(f.Name())
			_ = os.Remove(f.Name())
		} else {
			m.SetBodyWriter(mail.TypeTextPlain, producer([][]byte{nil}, true))
		}
	} else if sm.RenderFail && sm.FailVia != "" {
		m.SetBodyString(mail.TypeTextPlain, body)
		ferr := error(errProducer)
		if sm.FailVia == "seeker-eof" {
			ferr = fmt.Errorf("read chunk 3: connection closed: %w", io.EOF)
		}
		m.AttachReadSeeker("report.bin", &failSeeker{data: bytes.Repeat([]byte("attachment data "), 300), err: ferr})
	} else if sm.RenderFail {
		content := []byte(body)
		if sm.FailEarly {
			content = nil
		}
		m.SetBodyWriter(mail.TypeTextPlain, producer([][]byte{content}, true))
	} else {
		m.SetBodyString(mail.TypeTextPlain, body)
	}
	if sm.Signed && sm.RenderFail {
		_ = signWith(m, "rsa", 0)
	}
	if sm.FlakyAttach > 0 {
		data := bytes.Repeat([]byte(fmt.Sprintf("flaky attachment of message %d; ", i)), 120)
		src := &flakySeeker{data: data, failAt: sm.FlakyAttach % len(data)}
		flakyMu.Lock()
		flakySources[m] = src
		flakyMu.Unlock()
		m.AttachReadSeeker("flaky.bin", src)
	}
	if sm.AttachBytes > 0 {
		data := make([]byte, sm.AttachBytes)
		for k := range data {
			data[k] = byte(k*31 + i)
		}
		_ = m.AttachReader("attachment.bin", bytes.NewReader(data))
	}
	return m
}

// the flaky source of a message (FlakyAttach), to see after a first attempt whether it has had its failure
var (
	flakyMu      sync.Mutex
	flakySources = map[*mail.Msg]*flakySeeker{}
)

// RunScenario drives Client.DialAndSendWithContext against the scripted server
func RunScenario(sc *SmtpScenario) (run *SmtpRun, msgs []*mail.Msg) {
	run = &SmtpRun{}
	srv := NewRefServer(sc.Caps, sc.Script)
	var conn *ScriptConn
	dial := func(ctx context.Context, network, address string) (net.Conn, error) {
		conn = NewScriptConn(srv)
		return conn, nil
	}
	timeout := sc.Timeout
	if timeout == 0 {
		timeout = 5 * time.Second
	}
	vr := NewRng(sc.Variant, "client-variant")
	pick := func(n int) int {
		if sc.Variant == 0 {
			return 0
		}
		return vr.Intn(n)
	}
	var later []func(c *mail.Client)
	opts := []mail.Option{mail.WithTLSPolicy(mail.NoTLS), mail.WithDialContextFunc(dial), mail.WithTimeout(timeout)}
	if sc.TLS != "" {
		tlsMaterial()
		srv.TLSGood = tlsGoodCfg["verif.example"]
		srv.TLSBad = tlsWrongName["verif.example"]
		srv.tlsDone = make(chan struct{})
		pol := mail.TLSMandatory
		if sc.TLS == "opportunistic" {
			pol = mail.TLSOpportunistic
		}
		cfg := &tls.Config{ServerName: "verif.example", RootCAs: tlsRoots, MinVersion: tls.VersionTLS12}
		if pick(2) == 1 {
			later = append(later, func(c *mail.Client) { c.SetTLSPolicy(pol); _ = c.SetTLSConfig(cfg) })
		} else {
			opts = append(opts, mail.WithTLSPolicy(pol), mail.WithTLSConfig(cfg))
		}
	}
	if sc.Helo != "" {
		opts = append(opts, mail.WithHELO(sc.Helo))
	}
	if sc.NoNoop {
		opts = append(opts, mail.WithoutNoop())
	}
	if sc.DSN {
		opts = append(opts, mail.WithDSN())
	}
	if sc.DSNReturn != "" {
		opts = append(opts, mail.WithDSNMailReturnType(mail.DSNMailReturnOption(sc.DSNReturn)))
	}
	if len(sc.DSNNotify) > 0 {
		var no []mail.DSNRcptNotifyOption
		for _, n := range sc.DSNNotify {
			no = append(no, mail.DSNRcptNotifyOption(n))
		}
		opts = append(opts, mail.WithDSNRcptNotifyType(no...))
	}
	client, err := mail.NewClient("verif.example", opts...)
	if err != nil {
		run.Err = err
		run.Stage = "config"
		return
	}
	for _, f := range later {
		f(client)
	}
	var prebuilt []*mail.Msg
	if sc.Warmup != nil && sc.TLS == "" {
		mainSrv := srv
		srv = NewRefServer(sc.Warmup.Caps, sc.Warmup.Script)
		var wmsgs []*mail.Msg
		for i, sm := range sc.Warmup.Msgs {
			wmsgs = append(wmsgs, buildSmtpMsg(100+i, sm))
		}
		if sc.RetryOfFailed {
			// (a scripted positive reply at an end-of-data position would deliver after all)
			for pos, a := range sc.Warmup.Script {
				if a.Kind == "ok" || (a.Kind == "reply" && a.Code < 400) {
					delete(srv.Script, pos)
				}
			}
			// the first attempt delivers nothing: the server answers every end-of-data with a temporary refusal (the
			// classic reason for a retry); what the retry delivers is delivered by the retry
			srv.Dynamic = func(pos int, verb, line string) (SrvAction, bool) {
				if verb == "eod" {
					return SrvAction{Kind: "reply", Code: 451, Text: "4.3.0 try again later"}, true
				}
				return SrvAction{}, false
			}
			wmsgs = nil
			for i, sm := range sc.Msgs {
				prebuilt = append(prebuilt, buildSmtpMsg(i, sm))
			}
			wmsgs = prebuilt
		}
		watchdog(30*time.Second, func() {
			defer func() { _ = recover() }()
			_ = client.DialAndSendWithContext(context.Background(), wmsgs...)
		})
		if conn != nil {
			_ = conn.Close()
		}
		conn = nil
		srv = mainSrv
		// a flaky source the first attempt never reached (an earlier message of the batch had broken the connection)
		// has its failure still before it: in the run that is looked at, that message is one whose rendering fails
		flakyMu.Lock()
		for i, m := range prebuilt {
			if src := flakySources[m]; src != nil {
				if !src.tripped {
					sc.Msgs[i].RenderFail = true
				}
				delete(flakySources, m)
			}
			run.WarmDelivered = append(run.WarmDelivered, m.IsDelivered())
		}
		flakyMu.Unlock()
	}
	// the caller's context: none, or one with a deadline of its own far beyond the configured timeout (the
	// configured timeout still bounds every network operation)
	base := context.Background()
	if sc.Variant != 0 && sc.Variant%3 == 0 {
		var cancelBase context.CancelFunc
		base, cancelBase = context.WithTimeout(base, time.Hour)
		defer cancelBase()
	}
	ctx, cancel := context.WithCancel(base)
	defer cancel()
	for i, sm := range sc.Msgs {
		var m *mail.Msg
		if prebuilt != nil {
			m = prebuilt[i]
		} else {
			m = buildSmtpMsg(i, sm)
		}
		if sc.CtxCancelInMsg == i+1 && !sm.RenderFail {
			var buf bytes.Buffer
			if parts := m.GetParts(); len(parts) == 1 {
				if content, err := parts[0].GetContent(); err == nil {
					buf.Write(content)
				}
			}
			content := buf.Bytes()
			first := true
			m.SetBodyWriter(mail.TypeTextPlain, func(w io.Writer) (int64, error) {
				half := len(content) / 2
				n1, err := w.Write(content[:half])
				if err != nil {
					return int64(n1), err
				}
				cancel()
				if first {
					first = false
					time.Sleep(30 * time.Millisecond) // let whoever watches the context act
				}
				n2, err := w.Write(content[half:])
				return int64(n1 + n2), err
			})
		}
		msgs = append(msgs, m)
	}
	how := pick(4)
	if sc.CtxCancelInMsg > 0 {
		how = 0
	}
	if sc.CtxCancelAtPos > 0 {
		how = 0
		orig := srv.Dynamic
		srv.Dynamic = func(pos int, verb, line string) (SrvAction, bool) {
			if pos == sc.CtxCancelAtPos {
				cancel()
			}
			if orig != nil {
				return orig(pos, verb, line)
			}
			return SrvAction{}, false
		}
	}
	if !watchdog(60*time.Second, func() {
		defer func() {
			if r := recover(); r != nil {
				run.Panic = r
			}
		}()
		// where each public call begins, for the oracles that look at one call at a time
		mark := func(name string) {
			srv.mu.Lock()
			srv.Events = append(srv.Events, Event{Kind: "api", Line: name})
			srv.mu.Unlock()
		}
		switch how {
		case 1:
			mark("DialAndSend")
			run.Err = client.DialAndSend(msgs...)
		case 2:
			// the shared connection of the Client: dial, Send, Close (the wrapping of DialAndSendWithContext mirrored)
			mark("DialWithContext")
			if err := client.DialWithContext(ctx); err != nil {
				run.Err = fmt.Errorf("dial failed: %w", err)
				return
			}
			mark("Send")
			if err := client.Send(msgs...); err != nil {
				mark("Close")
				_ = client.Close()
				run.Err = fmt.Errorf("send failed: %w", err)
				return
			}
			mark("Close")
			if err := client.Close(); err != nil {
				run.Err = fmt.Errorf("failed to close connection: %w", err)
			}
		case 3:
			mark("DialToSMTPClientWithContext")
			sc2, err := client.DialToSMTPClientWithContext(ctx)
			if err != nil {
				run.Err = fmt.Errorf("dial failed: %w", err)
				return
			}
			mark("SendWithSMTPClient")
			if err := client.SendWithSMTPClient(sc2, msgs...); err != nil {
				mark("CloseWithSMTPClient")
				_ = client.CloseWithSMTPClient(sc2)
				run.Err = fmt.Errorf("send failed: %w", err)
				return
			}
			mark("CloseWithSMTPClient")
			if err := client.CloseWithSMTPClient(sc2); err != nil {
				run.Err = fmt.Errorf("failed to close connection: %w", err)
			}
		default:
			mark("DialAndSendWithContext")
			run.Err = client.DialAndSendWithContext(ctx, msgs...)
		}
	}) {
		run.Panic = "the call did not return within 60 s of real time (all waits of the scripted peer are virtual or bounded by the configured timeout)"
		if conn != nil {
			_ = conn.Close()
		}
	}
	if run.Err != nil {
		switch {
		case strings.HasPrefix(run.Err.Error(), "dial failed"):
			run.Stage = "dial"
		case strings.HasPrefix(run.Err.Error(), "send failed"):
			run.Stage = "send"
		case strings.HasPrefix(run.Err.Error(), "failed to close connection"):
			run.Stage = "close"
		default:
			run.Stage = "other"
		}
	}
	if conn != nil && conn.IsClosed() && srv.tlsStarted {
		select {
		case <-srv.tlsDone:
		case <-time.After(500 * time.Millisecond):
		}
	}
	srv.mu.Lock()
	run.Events = append([]Event(nil), srv.Events...)
	run.Committed = srv.Committed
	run.Applied = srv.Applied
	run.Verbs = srv.Verbs
	srv.mu.Unlock()
	if conn != nil {
		run.Open = !conn.IsClosed()
		run.Closes = conn.Closes
	}
	// a failed connection check is returned as a single SendError with reason ErrConnCheck
	var se *mail.SendError
	if run.Stage == "send" && errors.As(run.Err, &se) && se.Reason == mail.ErrConnCheck {
		run.CheckErr = se
	}
	for i, m := range msgs {
		r := MsgResult{Delivered: m.IsDelivered(), HasErr: m.HasSendError()}
		var e *mail.SendError
		if errors.As(m.SendError(), &e) && e != nil {
			r.Reason = int(e.Reason)
			r.Temp = e.IsTemp()
			r.Code = e.ErrorCode()
			r.ESC = e.EnhancedStatusCode()
			r.Rcpts, r.NErrs = mail.VerifSendErrorDetails(e)
			if m.SendErrorIsTemp() != e.IsTemp() {
				run.APIProblems = append(run.APIProblems, fmt.Sprintf("message %d: Msg.SendErrorIsTemp()=%v, SendError.IsTemp()=%v", i, m.SendErrorIsTemp(), e.IsTemp()))
			}
			if e.Msg() != m {
				run.APIProblems = append(run.APIProblems, fmt.Sprintf("message %d: SendError.Msg() is not the message the error is attached to", i))
			}
			if e.MessageID() != m.GetMessageID() {
				run.APIProblems = append(run.APIProblems, fmt.Sprintf("message %d: SendError.MessageID()=%q, the message has %q", i, e.MessageID(), m.GetMessageID()))
			}
			if errors.Is(m.SendError(), &mail.SendError{Reason: e.Reason}) != !e.IsTemp() {
				run.APIProblems = append(run.APIProblems, fmt.Sprintf("message %d: errors.Is(err, &SendError{Reason: %v}) = %v for an error with IsTemp()=%v", i, e.Reason, !(!e.IsTemp()), e.IsTemp()))
			}
			if errors.Is(m.SendError(), &mail.SendError{Reason: e.Reason + 1}) {
				run.APIProblems = append(run.APIProblems, fmt.Sprintf("message %d: errors.Is matches another reason", i))
			}
		} else if m.SendErrorIsTemp() {
			run.APIProblems = append(run.APIProblems, fmt.Sprintf("message %d: SendErrorIsTemp() without a SendError", i))
		}
		if !sc.Msgs[i].RenderFail {
			var b bytes.Buffer
			_, _ = m.WriteTo(&b)
			r.Rendering = b.Bytes()
		}
		// the envelope the caller asked for, from the addresses handed to the setters (parsed with net/mail,
		// not read back through the library's getters)
		r.Sender, r.AllRcpts = expectedEnvelope(sc.Msgs[i])
		if gs, _ := m.GetSender(false); gs != r.Sender {
			run.APIProblems = append(run.APIProblems, fmt.Sprintf("message %d: GetSender(false)=%q, the address handed to the setter is %q", i, gs, r.Sender))
		}
		if gr, _ := m.GetRecipients(); strings.Join(gr, "\x00") != strings.Join(r.AllRcpts, "\x00") {
			run.APIProblems = append(run.APIProblems, fmt.Sprintf("message %d: GetRecipients()=%q, the addresses handed to the setters are %q", i, gr, r.AllRcpts))
		}
		run.Msgs = append(run.Msgs, r)
	}
	return
}

// expectedEnvelope: sender (envelope-from, else From) and recipients (To, Cc, Bcc in that order) as bare
// addresses, computed from the values of the scenario with net/mail alone. A setter call with a value that
// does not parse sets nothing (To / Cc / Bcc take all values or none).
func expectedEnvelope(sm SmtpMsg) (string, []string) {
	bare := func(v string) (string, bool) {
		a, err := netmail.ParseAddress(v)
		if err != nil {
			return "", false
		}
		return a.Address, true
	}
	sender := ""
	if sm.From != "" {
		if a, ok := bare(sm.From); ok {
			sender = a
		}
	}
	if sm.EnvFrom != "" {
		if a, ok := bare(sm.EnvFrom); ok {
			sender = a
		}
	}
	var rcpts []string
	for li, list := range [][]string{sm.To, sm.Cc, sm.Bcc} {
		if li == 0 && sm.ToViaAdd {
			// To(first), then one AddTo per further value: every value stands for itself
			for _, v := range list {
				if a, good := bare(v); good {
					rcpts = append(rcpts, a)
				}
			}
			continue
		}
		var one []string
		ok := true
		for _, v := range list {
			a, good := bare(v)
			if !good {
				ok = false
				break
			}
			one = append(one, a)
		}
		if ok {
			rcpts = append(rcpts, one...)
		}
	}
	return sender, rcpts
}

// traceStrings canonicalises the server's event log into the model's vocabulary
func traceStrings(evs []Event) []string {
	var out []string
	for _, e := range evs {
		switch e.Kind {
		case "connect":
			out = append(out, "connect")
		case "cmd":
			out = append(out, "cmd "+e.Line)
		case "eod":
			out = append(out, "eod")
		case "reply":
			if e.Code < 0 {
				out = append(out, "garbage")
			} else {
				out = append(out, fmt.Sprintf("reply %d", e.Code))
			}
		case "drop":
			out = append(out, "drop")
		case "close":
			out = append(out, "close")
		case "deadline":
			out = append(out, "deadline")
		case "stall-armed", "stall-unarmed":
			out = append(out, e.Kind)
		case "tls-on", "tls-fail", "tls-accepted-bad-cert":
			out = append(out, e.Kind)
		}
	}
	// a failed handshake is noticed by both ends at the same time: the server thread records
	// "tls-fail", the client thread "close"; normalise to the model's order
	for i := 0; i+1 < len(out); i++ {
		if out[i] == "close" && out[i+1] == "tls-fail" {
			out[i], out[i+1] = out[i+1], out[i]
		}
	}
	// The scripted server sends its greeting as soon as the connection exists, i.e. before the client
	// arms the deadline; the model lets the server act when the client first reads. Same dialogue:
	// normalise to the model's order.
	if len(out) >= 3 && out[0] == "connect" && out[2] == "deadline" && out[1] != "deadline" {
		out[1], out[2] = out[2], out[1]
	}
	return out
}

func encAct(a SrvAction) string {
	switch a.Kind {
	case "drop":
		return "d"
	case "stall":
		return "s"
	case "garbage":
		return "g"
	case "tlsbad":
		return "t"
	case "deaf":
		return "f"
	case "reply":
		if a.Text == "" {
			return fmt.Sprintf("r%03d", a.Code)
		}
		return fmt.Sprintf("r%03d %s", a.Code, a.Text)
	}
	return "o"
}

func (sc *SmtpScenario) scriptList(n int) []string {
	out := make([]string, n)
	for i := range out {
		if a, ok := sc.Script[i]; ok {
			out[i] = encAct(a)
		} else {
			out[i] = "o"
		}
	}
	return out
}

// modelLine / wantLine: the `smtp dialsend` operation and the canonical implementation outcome
func (sc *SmtpScenario) modelLine(run *SmtpRun) string {
	maxPos := 0
	for p := range sc.Script {
		if p > maxPos {
			maxPos = p
		}
	}
	n := len(run.Applied) + 8
	if maxPos+2 > n {
		n = maxPos + 2
	}
	// effective DSN configuration after the options were applied in the order WithDSN, return type, notify types
	dsnReturn, dsnNotify := "", ""
	if sc.DSN {
		dsnReturn, dsnNotify = "FULL", "FAILURE,SUCCESS"
	}
	if sc.DSNReturn != "" {
		dsnReturn = sc.DSNReturn
	}
	if len(sc.DSNNotify) > 0 {
		dsnNotify = strings.Join(sc.DSNNotify, ",")
	}
	toks := []string{"smtp", "dialsend", encLS(sc.Caps), encLS(sc.scriptList(n)), encS(heloOf(sc)), encBool(sc.NoNoop), encBool(sc.DSN || sc.DSNReturn != "" || len(sc.DSNNotify) > 0),
		encS(dsnReturn), encS(dsnNotify), fmt.Sprintf("#%d", map[string]int{"mandatory": 0, "opportunistic": 1, "": 2}[sc.TLS])}
	for i, sm := range sc.Msgs {
		sender := "-"
		if run.Msgs[i].Sender != "" || sm.From != "" || sm.EnvFrom != "" {
			sender = encS(run.Msgs[i].Sender)
			if run.Msgs[i].Sender == "" {
				sender = "-"
			}
		}
		toks = append(toks, "m", encBool(sm.EightBit), sender, encLS(run.Msgs[i].AllRcpts), encBool(!sm.RenderFail), encBool(sm.BigBody+sm.AttachBytes*4/3 > 2*transportBuffer))
	}
	return strings.Join(toks, " ")
}

func heloOf(sc *SmtpScenario) string {
	if sc.Helo != "" {
		return sc.Helo
	}
	return defaultHelo()
}

func (run *SmtpRun) wantLine() string {
	dial, closeE := "-", "-"
	rootErr := run.Err
	for i := 0; i < 1 && rootErr != nil; i++ {
		if u := errors.Unwrap(rootErr); u != nil {
			rootErr = u
		}
	}
	switch run.Stage {
	case "dial":
		dial = dialErrTag(rootErr)
	case "close":
		// "failed to close connection: failed to close SMTP client: <err>"
		closeE = errTag(run.Err)
	}
	check := "-"
	if run.CheckErr != nil {
		rc, ne := mail.VerifSendErrorDetails(run.CheckErr)
		check = fmt.Sprintf("%s %s %s %s %s %s", encN(int(run.CheckErr.Reason)), encBool(run.CheckErr.IsTemp()), encN(run.CheckErr.ErrorCode()),
			encS(run.CheckErr.EnhancedStatusCode()), encLS(rc), encN(ne))
	}
	var res []string
	if run.Stage != "dial" && run.CheckErr == nil {
		for _, m := range run.Msgs {
			s := encBool(m.Delivered) + " "
			if !m.HasErr {
				s += "noerr"
			} else {
				s += fmt.Sprintf("err %s %s %s %s %s %s", encN(m.Reason), encBool(m.Temp), encN(m.Code), encS(m.ESC), encLS(m.Rcpts), encN(m.NErrs))
			}
			res = append(res, s)
		}
	}
	return fmt.Sprintf("%s dial=%s senderr=%s check=%s close=%s open=%s | %s", encLS(traceStrings(run.Events)), dial,
		encBool(run.Stage == "send"), check, closeE, encBool(run.Open), strings.Join(res, " "))
}

func sortedPositions(m map[int]SrvAction) []int {
	var ks []int
	for k := range m {
		ks = append(ks, k)
	}
	sort.Ints(ks)
	return ks
}
