package main

import (
	"bytes"
	"fmt"
	"mime"
	netmail "net/mail"
	"path/filepath"
	"strings"
)

// ---------------------------------------------------------------------------------------------
// Direct oracles on rendered messages (C01, C02, C06, C18): they look only at the bytes WriteTo
// produced and at the builder calls that were made, never at the model.

func sanitizeRef(name string) string {
	b := []byte(name)
	for i, c := range b {
		if c < 32 || c == '"' || c == '/' || c == ':' || c == '<' || c == '>' || c == '?' || c == '\\' || c == '|' || c == 127 {
			b[i] = '_'
		}
	}
	return string(b)
}

func isUTF8Charset(cs string) bool { return cs == "" || strings.EqualFold(cs, "UTF-8") }

func printableOnly(s string) bool {
	for i := 0; i < len(s); i++ {
		if (s[i] < 32 || s[i] > 126) && s[i] != '\t' {
			return false
		}
	}
	return true
}

// expectedStructure: mixed > related > alternative exactly when attachments, embeds, alternatives are present
func expectedStructure(np, ne, na int) string {
	rep := func(n int) []string {
		out := make([]string, n)
		for i := range out {
			out[i] = "l"
		}
		return out
	}
	items := rep(np)
	if np > 1 {
		items = []string{"alternative(" + strings.Join(items, ",") + ")"}
	}
	if ne > 0 {
		items = append(items, rep(ne)...)
		if len(items) > 1 {
			items = []string{"related(" + strings.Join(items, ",") + ")"}
		}
	}
	if na > 0 {
		items = append(items, rep(na)...)
		if len(items) > 1 {
			items = []string{"mixed(" + strings.Join(items, ",") + ")"}
		}
	}
	return strings.Join(items, ",")
}

type leafExpect struct {
	kind      string // part | embed | attachment
	mediaType string
	charset   string
	name      string
	content   []byte
	enc       string
	desc      string
}

func (spc *MsgSpec) expectedLeaves() []leafExpect {
	var out []leafExpect
	msgCharset := spc.Charset
	if msgCharset == "" {
		msgCharset = "UTF-8"
	}
	msgEnc := spc.Encoding
	if msgEnc == "" {
		msgEnc = "quoted-printable"
	}
	for _, p := range spc.liveParts() {
		l := leafExpect{kind: "part", mediaType: strings.ToLower(p.CType), charset: msgCharset, content: p.Content, enc: msgEnc, desc: p.Desc}
		if p.Charset != nil && *p.Charset != "" {
			l.charset = *p.Charset
		}
		if p.Enc != nil {
			l.enc = *p.Enc
		}
		out = append(out, l)
	}
	add := func(f FileSpec) {
		mt := mime.TypeByExtension(filepath.Ext(f.Name))
		if mt == "" {
			mt = "application/octet-stream"
		}
		if f.CType != "" {
			mt = f.CType
		}
		if i := strings.IndexByte(mt, ';'); i >= 0 {
			mt = mt[:i]
		}
		enc := f.Enc
		if enc == "" || enc == "quoted-printable" {
			enc = "base64"
		}
		kind := "embed"
		if f.Attach {
			kind = "attachment"
		}
		out = append(out, leafExpect{kind: kind, mediaType: strings.ToLower(strings.TrimSpace(mt)), name: sanitizeRef(f.Name), content: f.Content, enc: enc, desc: f.Desc})
	}
	for _, f := range spc.Files {
		if !f.Attach {
			add(f)
		}
	}
	for _, f := range spc.Files {
		if f.Attach {
			add(f)
		}
	}
	return out
}

var topDefaults = map[string]bool{"date": true, "mime-version": true, "message-id": true, "user-agent": true, "x-mailer": true,
	"from": true, "to": true, "cc": true, "reply-to": true, "content-type": true, "content-transfer-encoding": true,
	"content-description": true, "content-disposition": true, "content-id": true}
var partAllowed = map[string]bool{"content-type": true, "content-transfer-encoding": true, "content-description": true,
	"content-disposition": true, "content-id": true}

// oracleMessage checks C01 (leaves, nesting, content) and C02 (header sections) for one rendering.
func oracleMessage(c *Ctx, spc *MsgSpec, out []byte, checkC01, checkC02 bool) {
	c.rep.OracleChecked++
	if userBoundaryInContent(spc) {
		// the caller chose the boundary AND supplied content with a line that starts with its
		// delimiter, in an encoding that passes such a line through (quoted-printable, 8bit, 7bit): RFC 2046
		// makes the uniqueness of a boundary the duty of whoever chooses it. Outside the property.
		c.rep.Branches["oracle-skip:user-boundary-occurs-in-content"]++
		return
	}
	ent, err := parseEntity(out, 0)
	if err != nil {
		cls := "c01-unparseable"
		if checkC02 && !checkC01 {
			cls = "c02-unparseable"
		}
		c.Violate(cls, "strict reader rejects the rendering: "+err.Error(), spc)
		return
	}
	exp := spc.expectedLeaves()
	np, ne, na := len(spc.liveParts()), 0, 0
	for _, f := range spc.Files {
		if f.Attach {
			na++
		} else {
			ne++
		}
	}
	msgCharsetUTF8 := isUTF8Charset(spc.Charset)
	if checkC02 {
		// --- top-level header section: only the fields the caller set plus the documented defaults
		allowed := map[string]bool{}
		preformatted := map[string]bool{}
		lastGen := map[string][]string{}
		for _, g := range spc.expandedGen() {
			allowed[strings.ToLower(g.Key)] = true
			if g.Pre {
				preformatted[strings.ToLower(g.Key)] = true
			} else {
				lastGen[g.Key] = g.Values
			}
		}
		seen := map[string]int{}
		for _, f := range ent.Fields {
			ln := strings.ToLower(f.Name)
			seen[ln]++
			if !allowed[ln] && !topDefaults[ln] {
				c.Violate("c02-extra-field", "additional header field "+f.Name+" in the message header", spc)
			}
		}
		for n, k := range seen {
			if k > 1 {
				c.Violate("c02-duplicate-field", fmt.Sprintf("field %s occurs %d times", n, k), spc)
			}
		}
		// User-Agent / X-Mailer: the default pair is added only when the caller set neither of the two
		if allowed["user-agent"] != allowed["x-mailer"] {
			other := "x-mailer"
			if allowed["x-mailer"] {
				other = "user-agent"
			}
			if seen[other] > 0 {
				c.Violate("c02-extra-field", "the caller set only one of User-Agent / X-Mailer, the other one ("+other+") was added", spc)
			}
		}
		for key, vals := range lastGen {
			if len(vals) == 0 || preformatted[strings.ToLower(key)] || !msgCharsetUTF8 {
				continue
			}
			if lk := strings.ToLower(key); topDefaults[lk] && lk != "date" && lk != "message-id" && lk != "user-agent" && lk != "x-mailer" {
				continue // a field the writer sets itself whatever the caller put there (MIME-Version, Content-*, addresses)
			}
			got, n := ent.Get(key)
			want := strings.Join(vals, ", ")
			if n == 0 {
				c.Violate("c02-missing-field", "field "+key+" set by the caller is missing", spc)
				continue
			}
			checkDecoded(c, spc, "gen:"+key, got, want)
		}
	}
	if len(exp) == 0 {
		return
	}
	if checkC01 {
		if got, want := ent.structure(), expectedStructure(np, ne, na); got != want {
			c.Violate("c01-structure", fmt.Sprintf("multipart nesting is %s, expected %s", got, want), spc)
			return
		}
	}
	leaves := ent.leaves()
	if len(leaves) != len(exp) {
		cls := "c01-leaf-count"
		if !checkC01 {
			cls = "c02-leaf-count"
		}
		c.Violate(cls, fmt.Sprintf("%d leaves found, %d expected", len(leaves), len(exp)), spc)
		return
	}
	for i, l := range leaves {
		x := exp[i]
		if checkC02 && l != ent {
			seen := map[string]int{}
			for _, f := range l.Fields {
				ln := strings.ToLower(f.Name)
				seen[ln]++
				if !partAllowed[ln] {
					c.Violate("c02-extra-part-field", "additional header field "+f.Name+" in a MIME part header", spc)
				}
				if seen[ln] > 1 {
					c.Violate("c02-duplicate-part-field", "field "+f.Name+" duplicated in a MIME part header", spc)
				}
			}
		}
		if checkC02 && msgCharsetUTF8 {
			if x.desc != "" {
				got, n := l.Get("Content-Description")
				if n == 0 {
					c.Violate("c02-missing-description", "Content-Description of leaf "+fmt.Sprint(i)+" missing", spc)
				} else {
					checkDecoded(c, spc, "description", got, x.desc)
				}
			}
		}
		if checkC02 && x.desc == "" {
			if got, n := l.Get("Content-Description"); n > 0 {
				c.Violate("c02-extra-part-field", fmt.Sprintf("leaf %d carries a Content-Description (%q) that nobody set for it", i, got), spc)
			}
		}
		if checkC02 && !checkC01 && x.kind != "part" && msgCharsetUTF8 {
			// the file name is one of the strings of C02: it decodes to what was set (after the documented replacements)
			cd, _ := l.Get("Content-Disposition")
			if _, params, err := parseParams(cd); err == nil {
				if fn, derr := decode2047(params["filename"]); (derr != nil || fn != x.name) && !strings.Contains(x.name, "=?") {
					c.Violate("c02-filename", fmt.Sprintf("leaf %d: the file name decodes to %.80q (%d bytes), %.80q (%d bytes) was set", i, fn, len(fn), x.name, len(x.name)), spc)
				}
			}
		}
		if !checkC01 {
			continue
		}
		if l.MediaType != x.mediaType {
			c.Violate("c01-media-type", fmt.Sprintf("leaf %d has media type %q, expected %q", i, l.MediaType, x.mediaType), spc)
		}
		if x.kind == "part" {
			if cs := l.Params["charset"]; cs != x.charset {
				c.Violate("c01-charset", fmt.Sprintf("leaf %d has charset %q, expected %q", i, cs, x.charset), spc)
			}
		} else {
			cd, _ := l.Get("Content-Disposition")
			disp, params, err := parseParams(cd)
			want := "inline"
			if x.kind == "attachment" {
				want = "attachment"
			}
			if err != nil || disp != want {
				c.Violate("c01-disposition", fmt.Sprintf("leaf %d has disposition %q (%v), expected %s", i, cd, err, want), spc)
			} else if msgCharsetUTF8 {
				fn, derr := decode2047(params["filename"])
				if derr != nil || fn != x.name {
					if strings.Contains(x.name, "=?") {
						c.Violate("c02-encoded-word-lookalike", "a printable value that looks like an encoded-word is emitted verbatim and decodes to something else", spc)
					} else {
						c.Violate("c01-filename", fmt.Sprintf("leaf %d has file name %q, expected %q", i, fn, x.name), spc)
					}
				}
			}
		}
		body, cte, err := l.decodedBody()
		if err != nil {
			c.Violate("c01-body-decode", fmt.Sprintf("leaf %d (%s): %v", i, cte, err), spc)
			continue
		}
		if cte != strings.ToLower(x.enc) {
			c.Violate("c01-cte", fmt.Sprintf("leaf %d has transfer encoding %q, expected %q", i, cte, x.enc), spc)
			continue
		}
		want := x.content
		if cte == "quoted-printable" {
			if hasBareCR(want) {
				// outside the property's quantifier (text with CRLF/LF line breaks); Go's QP writer has a
				// documented-by-code quirk there (an escaped byte between a bare CR and a LF swallows the LF)
				c.rep.Branches["oracle-skip:qp-bare-cr"]++
				continue
			}
			want = canonCRLF(want)
		}
		if !bytes.Equal(body, want) {
			cls := "c01-content"
			if cte == "8bit" || cte == "7bit" {
				// 8bit content is written raw: a content line that equals a delimiter cannot be protected
				if bytes.Contains(x.content, []byte("--")) {
					cls = "c01-content-8bit-boundary-clash"
				}
			}
			c.Violate(cls, fmt.Sprintf("leaf %d (%s): decoded content differs from the supplied content (%d vs %d bytes)", i, cte, len(body), len(want)), spc)
		}
	}
}

// checkDecoded: RFC 2047 decoding of an unfolded field value, whitespace-normalised, equals what was set
func checkDecoded(c *Ctx, spc *MsgSpec, what, got, want string) {
	dec, err := decode2047(got)
	if err == nil && normWS(dec) == normWS(want) {
		return
	}
	if strings.Contains(want, "=?") {
		c.Violate("c02-encoded-word-lookalike", "a printable value that looks like an encoded-word is emitted verbatim and decodes to something else", spc)
		return
	}
	c.Violate("c02-value-mismatch", fmt.Sprintf("%s decodes to %q, but %q was set (err=%v)", what, dec, want, err), spc)
}

// oracleLines: C18 line discipline on a complete rendering
func oracleLines(c *Ctx, spc *MsgSpec, out []byte) {
	c.rep.OracleChecked++
	ent, err := parseEntity(out, 0)
	if err != nil {
		// a header section with a bare CR or LF: the library's doing unless the caller supplied one in a
		// preformatted value (those are written as given)
		if strings.Contains(err.Error(), "bare CR or LF in header") {
			clean := true
			for _, g := range spc.Gen {
				if !g.Pre {
					continue
				}
				for _, v := range g.Values {
					for i := 0; i < len(v); i++ {
						if v[i] == '\r' && (i+1 >= len(v) || v[i+1] != '\n') {
							clean = false
						}
						if v[i] == '\n' && (i == 0 || v[i-1] != '\r' || i+1 >= len(v) || (v[i+1] != ' ' && v[i+1] != '\t')) {
							clean = false
						}
					}
				}
			}
			if clean {
				c.Violate("c18-header-bare-cr-lf", err.Error(), spc)
			}
		}
		return // otherwise reported by the C01/C02 oracles
	}
	// folded fields unfold to the value that was set (the last value list per key; UTF-8 messages: the
	// decoder of the harness knows no other charset)
	if isUTF8Charset(spc.Charset) {
		lastGen := map[string][]string{}
		preKey := map[string]bool{}
		for _, g := range spc.expandedGen() {
			if g.Pre {
				preKey[strings.ToLower(g.Key)] = true
			} else {
				lastGen[g.Key] = g.Values
			}
		}
		for key, vals := range lastGen {
			lk := strings.ToLower(key)
			if len(vals) == 0 || preKey[lk] || (topDefaults[lk] && lk != "date" && lk != "message-id" && lk != "user-agent" && lk != "x-mailer") {
				continue
			}
			got, n := ent.Get(key)
			want := strings.Join(vals, ", ")
			if n == 0 || strings.Contains(want, "=?") {
				continue
			}
			if dec, derr := decode2047(got); derr != nil || normWS(dec) != normWS(want) {
				c.Violate("c18-unfolds-to-another-value", fmt.Sprintf("field %s (%d bytes as written) unfolds and decodes to %.60q... (%d bytes), %.60q... (%d bytes) was set", key, len(got), dec, len(dec), want, len(want)), spc)
			}
		}
	}
	var walk func(e *Entity, top bool)
	walk = func(e *Entity, top bool) {
		for _, f := range e.Fields {
			pre := false
			for _, g := range spc.expandedGen() {
				if g.Pre && strings.EqualFold(g.Key, f.Name) {
					pre = true
				}
			}
			if pre {
				continue
			}
			for _, raw := range f.Raw {
				if len(raw) > 78 && strings.ContainsAny(strings.TrimSpace(strings.TrimPrefix(raw, f.Name+":")), " \t") {
					cls := "c18-header-line-too-long"
					if !top {
						cls = "c18-part-header-unfolded"
					}
					if top && strings.HasPrefix(raw, "Content-Type: multipart/signed; protocol=\"application/pkcs7-signature\"; micalg=sha-256;") {
						// the one line of an S/MIME signed message that the writer produces unfolded (known finding)
						cls = "c18-signed-content-type-line"
					}
					c.Violate(cls, fmt.Sprintf("header line of %d characters containing blanks: %.60q...", len(raw), raw), spc)
				}
			}
		}
		if len(e.Children) == 0 && !strings.HasPrefix(e.MediaType, "multipart/") {
			cte, _ := e.Get("Content-Transfer-Encoding")
			cte = strings.ToLower(strings.TrimSpace(cte))
			if cte == "base64" || cte == "quoted-printable" {
				if why := oracleBodyLines(e.Body); why != "" {
					c.Violate("c18-body-line", cte+" body: "+why, spc)
				}
			}
		}
		for _, ch := range e.Children {
			walk(ch, false)
		}
	}
	walk(ent, true)
}

// parsedName returns the display name net/mail reads from a rendered address field
func parsedNames(v string) ([]string, []string, error) {
	l, err := netmail.ParseAddressList(v)
	if err != nil {
		return nil, nil, err
	}
	var names, addrs []string
	for _, a := range l {
		names = append(names, a.Name)
		addrs = append(addrs, a.Address)
	}
	return names, addrs, nil
}

func hasBareCR(b []byte) bool {
	for i, c := range b {
		if c == '\r' && (i+1 >= len(b) || b[i+1] != '\n') {
			return true
		}
	}
	return false
}

// userBoundaryInContent: WithBoundary was used and some literally transferred content has a line that
// starts with "--" + that boundary
func userBoundaryInContent(spc *MsgSpec) bool {
	if spc.Boundary == "" {
		return false
	}
	delim := []byte("--" + spc.Boundary)
	has := func(content []byte, enc string) bool {
		if strings.EqualFold(enc, "base64") {
			return false
		}
		if bytes.HasPrefix(content, delim) {
			return true
		}
		for _, sep := range []string{"\n", "\r"} {
			if bytes.Contains(content, append([]byte(sep), delim...)) {
				return true
			}
		}
		return false
	}
	for _, p := range spc.Parts {
		enc := spc.Encoding
		if p.Enc != nil {
			enc = *p.Enc
		}
		if has(p.Content, enc) {
			return true
		}
	}
	for _, f := range spc.Files {
		enc := f.Enc
		if enc == "" || enc == "quoted-printable" {
			enc = "base64"
		}
		if has(f.Content, enc) {
			return true
		}
	}
	return false
}
