module gmextract

go 1.20
