module gmmutate

go 1.23
