// gmmutate: simple syntactic mutants of a Go source file, for measuring what the checks in /verif
// notice. Usage:
//
//	gmmutate list  <file.go>            one line per mutation site: <index> <line> <operator> <description>
//	gmmutate apply <file.go> <index>    the mutated file on standard output
//
// Operators: relational and logical operator replacement, arithmetic +/- swap, negation removal,
// integer literal +1 / -1, deletion of a call or assignment statement, `return ..., err` -> `return ..., nil`,
// `if cond` -> `if !(cond)`. Only code inside function bodies.
package main

import (
	"bytes"
	"fmt"
	"go/ast"
	"go/parser"
	"go/printer"
	"go/token"
	"os"
	"strconv"
)

type site struct {
	line  int
	op    string
	desc  string
	apply func()
}

func main() {
	if len(os.Args) < 3 {
		fmt.Fprintln(os.Stderr, "usage: gmmutate list|apply file [index]")
		os.Exit(2)
	}
	mode, path := os.Args[1], os.Args[2]
	fset := token.NewFileSet()
	f, err := parser.ParseFile(fset, path, nil, parser.ParseComments)
	if err != nil {
		fmt.Fprintln(os.Stderr, err)
		os.Exit(1)
	}
	var sites []site
	add := func(pos token.Pos, op, desc string, apply func()) {
		sites = append(sites, site{fset.Position(pos).Line, op, desc, apply})
	}
	swap := map[token.Token][]token.Token{
		token.EQL: {token.NEQ}, token.NEQ: {token.EQL},
		token.LSS: {token.LEQ, token.GEQ}, token.LEQ: {token.LSS, token.GTR},
		token.GTR: {token.GEQ, token.LEQ}, token.GEQ: {token.GTR, token.LSS},
		token.LAND: {token.LOR}, token.LOR: {token.LAND},
		token.ADD: {token.SUB}, token.SUB: {token.ADD},
	}
	for _, d := range f.Decls {
		fd, ok := d.(*ast.FuncDecl)
		if !ok || fd.Body == nil {
			continue
		}
		fname := fd.Name.Name
		ast.Inspect(fd.Body, func(n ast.Node) bool {
			switch x := n.(type) {
			case *ast.BinaryExpr:
				// string concatenation with + is left alone when an operand is a string literal
				if x.Op == token.ADD || x.Op == token.SUB {
					if isString(x.X) || isString(x.Y) {
						return true
					}
				}
				for _, to := range swap[x.Op] {
					x, from, to := x, x.Op, to
					add(x.OpPos, "binop", fmt.Sprintf("%s: %s -> %s", fname, from, to), func() { x.Op = to })
				}
			case *ast.UnaryExpr:
				if x.Op == token.NOT {
					add(x.OpPos, "negation", fname+": ! removed", func() { x.Op = token.ADD })
				}
			case *ast.BasicLit:
				if x.Kind == token.INT {
					if v, err := strconv.ParseInt(x.Value, 0, 64); err == nil && v >= 0 && v < 100000 {
						x, v := x, v
						add(x.Pos(), "literal", fmt.Sprintf("%s: %d -> %d", fname, v, v+1), func() { x.Value = strconv.FormatInt(v+1, 10) })
						if v > 0 {
							add(x.Pos(), "literal", fmt.Sprintf("%s: %d -> %d", fname, v, v-1), func() { x.Value = strconv.FormatInt(v-1, 10) })
						}
					}
				}
			case *ast.IfStmt:
				add(x.Cond.Pos(), "ifneg", fname+": if condition negated", func() {
					x.Cond = &ast.UnaryExpr{Op: token.NOT, X: &ast.ParenExpr{X: x.Cond}}
				})
			case *ast.BlockStmt:
				for i, st := range x.List {
					x, i := x, i
					switch s := st.(type) {
					case *ast.ExprStmt:
						if _, ok := s.X.(*ast.CallExpr); ok {
							add(s.Pos(), "delcall", fname+": call statement removed", func() { x.List[i] = &ast.EmptyStmt{Semicolon: s.Pos()} })
						}
					case *ast.AssignStmt:
						if s.Tok == token.ASSIGN || s.Tok == token.ADD_ASSIGN || s.Tok == token.SUB_ASSIGN {
							add(s.Pos(), "delassign", fname+": assignment removed", func() { x.List[i] = &ast.EmptyStmt{Semicolon: s.Pos()} })
						}
					case *ast.IncDecStmt:
						add(s.Pos(), "delassign", fname+": increment removed", func() { x.List[i] = &ast.EmptyStmt{Semicolon: s.Pos()} })
					case *ast.ReturnStmt:
						if k := len(s.Results); k >= 1 {
							if id, ok := s.Results[k-1].(*ast.Ident); ok && (id.Name == "err" || id.Name == "ferr" || id.Name == "werr") {
								s := s
								add(s.Pos(), "swallow", fname+": return ..., "+id.Name+" -> nil", func() { s.Results[k-1] = ast.NewIdent("nil") })
							}
						}
					}
				}
			}
			return true
		})
	}
	switch mode {
	case "list":
		for i, s := range sites {
			fmt.Printf("%d %d %s %s\n", i, s.line, s.op, s.desc)
		}
	case "apply":
		idx, err := strconv.Atoi(os.Args[3])
		if err != nil || idx < 0 || idx >= len(sites) {
			fmt.Fprintln(os.Stderr, "bad index")
			os.Exit(2)
		}
		sites[idx].apply()
		var buf bytes.Buffer
		if err := (&printer.Config{Mode: printer.UseSpaces | printer.TabIndent, Tabwidth: 8}).Fprint(&buf, fset, f); err != nil {
			fmt.Fprintln(os.Stderr, err)
			os.Exit(1)
		}
		os.Stdout.Write(buf.Bytes())
	}
}

func isString(e ast.Expr) bool {
	if l, ok := e.(*ast.BasicLit); ok && l.Kind == token.STRING {
		return true
	}
	return false
}
